import sys, os; sys.path.insert(0, os.getcwd())
# complex cbrt / sqrt of perfect Gaussian cubes / squares under directed rounding
from mpmath import mp, mpf, mpc, cbrt, sqrt
from mpmath.libmp import from_int
mp.prec = 53
bad = 0
z = mpc(4126, 3)**3              # 70240400974 + 153214857j, exact
assert z == mpc(70240400974, 153214857)
for r in 'nfcdu':
    v = cbrt(z, rounding=r)
    ok = (v == mpc(4126, 3))
    print("cbrt((4126+3j)**3, rounding=%r) = %s  exact: %s" % (r, mp.nstr(v, 20), ok))
    if not ok: bad = 1
p, q = 2**37 + 1, 1
z = mp.make_mpc((from_int(p*p - q*q), from_int(2*p*q)))   # exact (p+qi)**2, 75-bit real part
for r in 'nfcdu':
    v = sqrt(z, rounding=r)
    ok = (v == mpc(p, q))
    print("sqrt((2**37+1+1j)**2, rounding=%r) = %s  exact: %s" % (r, mp.nstr(v, 20), ok))
    if not ok: bad = 1
print("expected: exact roots 4126+3j and 137438953473+1j in every rounding mode")
sys.exit(bad)
