# C13 violation 1: complex tan/cot/tanh raise ZeroDivisionError (or return garbage) at finite
# arguments close to a pole, where the function value is finite.
import sys, os; sys.path.insert(0, os.getcwd())
from mpmath import mp, mpc, mpf, pi, tan, cot, tanh, sin, cos, workprec, nstr
mp.prec = 120
z = mpc(pi/2, mpf(2)**-40)     # real part = pi/2 correct to 120 bits (exact binary number, NOT a pole)
mp.prec = 53                   # evaluate at 53 bits
with workprec(3000):
    ref = sin(z)/cos(z)       # finite: about -3.3e-13 + 1.0995e12j
print("z =", z.real._mpf_, z.imag._mpf_, " working prec 53")
print("expected tan(z) ~", nstr(ref, 15))
fail = 0
for name, f, arg in (("tan", tan, z), ("tanh(i*z)/i", tanh, mp.make_mpc((z.imag._mpf_, z.real._mpf_)))):
    try:
        v = f(arg); print(name, "observed:", v)
    except ZeroDivisionError as ex:
        print(name, "observed: ZeroDivisionError"); fail = 1
# same defect with an argument exact at the working precision: finite but wrong by 12 orders
z2 = mpc(pi/2, 1e-30)
with workprec(3000): ref2 = sin(z2)/cos(z2)
v2 = tan(z2)
print("tan(mpc(pi/2,1e-30)) observed", v2, "expected", nstr(ref2, 15))
if abs(v2-ref2)/abs(ref2) > 1e-3: fail = 1
sys.exit(fail)
