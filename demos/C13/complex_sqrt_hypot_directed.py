# C13 violation 4 (debatable): sqrt of a perfect complex square and hypot of a Pythagorean
# triple are not exact under directed rounding (intermediate x**2+y**2 is truncated).
import sys, os; sys.path.insert(0, os.getcwd())
from mpmath import mp, mpc, sqrt
from mpmath.libmp import from_int
from mpmath.libmp.libmpf import mpf_hypot
mp.prec = 53
fail = 0
u, w = 1048577, 1
z = mpc(u*u - w*w, 2*u*w)          # exactly (u + w*i)**2, fits in 53 bits
for rnd in 'nfdcu':
    r = sqrt(z, rounding=rnd)
    bad = r != mpc(u, w)
    fail |= bad
    print(("VIOLATION " if bad else "ok        ") + "sqrt((%d+%dj)**2, rounding=%r)" % (u, w, rnd), "observed", repr(r), "expected", mpc(u, w))
for a, b, c, prec, rnd in [(152, 714, 730, 10, 'd'), (43895981183, 23032067520, 49571496833, 53, 'f'),
                           (152, 714, 730, 10, 'n')]:
    v = mpf_hypot(from_int(a), from_int(b), prec, rnd)
    bad = v != from_int(c)
    fail |= bad
    print(("VIOLATION " if bad else "ok        ") + "mpf_hypot(%d, %d, prec=%d, rnd=%r)" % (a, b, prec, rnd), "observed", v, "expected", from_int(c))
sys.exit(int(fail))
