# Complex cbrt/root of exact Gaussian perfect powers is not exact (round-to-nearest):
# mpc_nthroot (n <= 20 Newton path) rounds to prec2 = 1.2*(prec+10) bits instead of prec,
# so the result carries noise below the working precision (mantissa longer than prec).
import sys, os; sys.path.insert(0, os.getcwd())
from mpmath import mp, mpf, mpc, cbrt, root, nstr
bad = 0
def check(name, v, w):
    global bad
    print("prec=%d %s: expected %s, observed-expected = %s, mantissa bits (re, im) = %s" % (
        mp.prec, name, nstr(w, 8), nstr(v - w, 5), (v.real._mpf_[3], v.imag._mpf_[3])))
    bad += (v != w)
mp.prec = 100
check("cbrt(((1-1j)/8)**3)", cbrt(mpc(-2, -2)/512), mpc(1, -1)/8)          # (1-j)**3 = -2-2j
mp.prec = 53
check("cbrt(((2-3j)/32)**3)", cbrt(mpc(-46, -9)/32**3), mpc(2, -3)/32)      # (2-3j)**3 = -46-9j
check("root(((3+1j)/8)**7, 7)", root(mpc(3, 1)**7/mpf(8)**7, 7), mpc(3, 1)/8)
print("violations:", bad)
sys.exit(1 if bad else 0)
