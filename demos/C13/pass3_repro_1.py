# C13 violation 1: root(x**n, n) / cbrt of an exact complex perfect power is not exact
# (mpc_nthroot, Newton path n <= 20; round-to-nearest, default 53 bits): the small component is wrong by a relative error up to 1e-12.
import sys, os; sys.path.insert(0, os.getcwd())
from mpmath import mp, mpf, mpc
from mpmath.libmp import from_man_exp
P, Q, S = 3 << 40, 1, 40               # w = (P + Q i) * 2^-S = 3 + 2^-40 i
w = mpc(3, mpf(2)**-40)
bad = 0
for n in (2, 3, 4, 5):
    re, im = 1, 0
    for _ in range(n): re, im = re*P - im*Q, re*Q + im*P       # exact integers
    z = mp.make_mpc((from_man_exp(re, -n*S), from_man_exp(im, -n*S)))  # z = w**n exactly
    r = mp.root(z, n)
    print("n=%d  z = (3+2^-40 i)^n  root(z,n) = %r" % (n, r))
    print("     expected %r ; rel. error of imag part = %.3g" % (w, float((r.imag - w.imag)/w.imag)))
    if r.real != w.real or r.imag != w.imag: bad += 1
    if n == 3:
        c = mp.cbrt(z)
        print("     cbrt(z) = %r" % c)
        if c.imag != w.imag: bad += 1
C = mpf(129)/1024                       # (C + C i)^4 = -4 C^4 (exactly representable, 31 bits)
r = mp.root(-4*C**4, 4)
print("root(-4*(129/1024)^4, 4) = %r == (C + C i)? %s ; deviation %s" % (r, r == mpc(C, C), mp.nstr(abs(r - mpc(C, C)), 3)))
if r != mpc(C, C): bad += 1
r = mp.cbrt(mpc(0, mpf(1)/512))          # (i/512)^(1/3) = sqrt(3)/16 + i/16
print("cbrt(i/512).imag = %r  expected 0.0625 ; deviation %s" % (r.imag, mp.nstr(r.imag - 0.0625, 3)))
if r.imag != 0.0625: bad += 1
print("VIOLATION" if bad else "ok"); sys.exit(1 if bad else 0)
