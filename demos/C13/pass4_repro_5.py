import sys, os; sys.path.insert(0, os.getcwd())
# libmpf.mpf_hypot of an exact Pythagorean triple under downward rounding (low-level API only)
from mpmath.libmp import mpf_hypot, from_int, to_int
k = 2**49 + 1
bad = 0
for r in 'nfcdu':
    v = mpf_hypot(from_int(3*k), from_int(4*k), 53, r)
    ok = (v == from_int(5*k))
    print("mpf_hypot(3k, 4k, 53, %r) = %r  expected %r  exact: %s" % (r, v, from_int(5*k), ok))
    if not ok: bad = 1
sys.exit(bad)
