# cbrt / root of perfect powers with directed rounding are not exact although the
# exact root is representable (prec >= bits of the root).  No remainder test in mpf_nthroot.
import sys, os; sys.path.insert(0, os.getcwd())
from mpmath import mp, mpf
from mpmath.libmp import mpf_nthroot, from_int, to_int, to_str
bad = 0
mp.prec = 30
r = 609381
for rnd in 'fd':
    x = mpf((8*r)**3, prec=1000)                  # exact input; root 8*r has 23 bits
    assert x == (8*r)**3
    v = mp.cbrt(x, rounding=rnd)
    print("prec=30 cbrt((8*%d)**3, rounding=%r): expected %d, observed %s" % (r, rnd, 8*r, mp.nstr(v, 15)))
    bad += (v != 8*r)
mp.prec = 84
r = 11893409590931945323
x = mpf((2*r)**3, prec=1000); assert x == (2*r)**3
v = mp.cbrt(x, rounding='c'); r = 2*r
print("prec=84 cbrt(%d**3, rounding='c'): expected %d, observed r + %s" % (r, r, mp.nstr(v - r, 5)))
bad += (v != r)
for r, n, prec, rnd in [(7, 17, 3, 'd'), (27, 13, 15, 'f'), (237, 10, 10, 'd'), (677, 15, 60, 'c'), (941300165, 6, 80, 'u')]:
    v = mpf_nthroot(from_int(r**n), n, prec, rnd)
    print("mpf_nthroot(%d**%d, %d, prec=%d, rnd=%r): expected %d, observed %s" % (r, n, n, prec, rnd, r, to_str(v, 25)))
    bad += (v != from_int(r))
print("violations:", bad)
sys.exit(1 if bad else 0)
