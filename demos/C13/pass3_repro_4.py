# C13 violation 4 (debatable): x**y with an exactly representable result is not exact under directed rounding
# when y = k/4, k/8, ... (mpf_pow goes through exp(y*log(x)) without an exactness test).
import sys, os; sys.path.insert(0, os.getcwd())
from mpmath.libmp import mpf_pow, from_int, from_man_exp, to_str
cases = [(16, (1, -2), 2), (81, (3, -2), 27), (625, (1, -2), 5), (256, (1, -3), 2), (6561, (5, -3), 243)]
bad = 0
for x, (m, e), want in cases:
    for rnd in 'nfcdu':
        r = mpf_pow(from_int(x), from_man_exp(m, e), 53, rnd)
        exact = (r == from_int(want))
        if not exact:
            bad += 1
            print("mpf_pow(%d, %d/%d, 53, %r) = %s   expected %d" % (x, m, 2**-e, rnd, to_str(r, 20), want))
print("VIOLATION (%d inexact results)" % bad if bad else "ok")
sys.exit(1 if bad else 0)
