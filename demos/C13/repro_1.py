# root(x**n, n) / cbrt(x**3) not exact (round-to-nearest) in certain precision bands:
# nthroot_fixed Newton iteration loses accuracy when first giant step ~ 2*start.
import sys, os; sys.path.insert(0, os.getcwd())
from mpmath import mp, mpf
bad = 0
for prec, r, n in [(3089, 257, 6), (1520, 257, 6), (760, 257, 6), (1500, 3, 9), (1540, 257, 3)]:
    mp.prec = prec
    x = mpf(r)**n              # exact: r**n has far fewer bits than prec
    assert x == r**n
    v = mp.cbrt(x) if n == 3 else mp.root(x, n)
    ulp = mpf(2)**(r.bit_length() - prec)
    print("prec=%d root(%d**%d, %d): expected %d, observed %d + %s  (= %s ulp)" %
          (prec, r, n, n, r, r, mp.nstr(v - r, 5), mp.nstr((v - r)/ulp, 5)))
    if v != r:
        bad += 1
print("violations:", bad)
sys.exit(1 if bad else 0)
