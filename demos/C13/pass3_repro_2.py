# C13 violation 2: powm1(x, y) returns exactly 0 although x**y != 1
# (x = -(1+2^-10000) carries far more bits than the working precision, y = 2).
import sys, os; sys.path.insert(0, os.getcwd())
from mpmath import mp, mpf, mpc, powm1
mp.prec = 20000
t = mpf(2)**-10000
x = -(1 + t)                 # exact, 10001-bit mantissa
xi = mpc(0, 1 + t)           # i*(1+2^-10000)
xp = 1 + t                   # positive counterpart (handled correctly)
expected2 = 2*t + t*t        # x**2 - 1 exactly
expected4 = (1 + t)**4 - 1   # (i(1+t))**4 - 1 exactly
mp.prec = 53
v2 = powm1(x, 2)
v4 = powm1(xi, 4)
ok_pos = powm1(xp, 2)
print("x = -(1+2^-10000), y = 2:   powm1 =", v2, "  expected", mp.nstr(expected2, 15))
print("x = i(1+2^-10000), y = 4:   powm1 =", v4, "  expected", mp.nstr(expected4, 15))
print("x = +(1+2^-10000), y = 2:   powm1 =", ok_pos, " (correct)")
bad = (v2 == 0) or (v4 == 0)
print("VIOLATION: powm1 == 0 but x**y != 1" if bad else "ok")
sys.exit(1 if bad else 0)
