# C13 violation 2: mpf_nthroot (Newton branch) is not exact on perfect powers under
# directed rounding; even root(1, n) != 1.
import sys, os; sys.path.insert(0, os.getcwd())
from mpmath import mp, mpf, cbrt
from mpmath.libmp import from_int, from_man_exp, fone
from mpmath.libmp.libelefun import mpf_nthroot
fail = 0
def chk(desc, got, exp):
    global fail
    bad = got != exp
    fail |= bad
    print(("VIOLATION " if bad else "ok        ") + desc, "observed", got, "expected", exp)
chk("mpf_nthroot(1, 17, 53, 'u')", mpf_nthroot(fone, 17, 53, 'u'), fone)
chk("mpf_nthroot(1, 50, 1000, 'c')", mpf_nthroot(fone, 50, 1000, 'c'), fone)
chk("mpf_nthroot(2**9, 9, 64, 'u')", mpf_nthroot(from_int(2**9), 9, 64, 'u'), from_int(2))
chk("mpf_nthroot(21**17/2**34, 17, 53, 'u')", mpf_nthroot(from_man_exp(21**17, -34), 17, 53, 'u'), from_man_exp(21, -2))
chk("mpf_nthroot(869**12, 12, 12, 'd')", mpf_nthroot(from_int(869**12), 12, 12, 'd'), from_int(869))
chk("mpf_nthroot(7**17, 17, 5, 'f')", mpf_nthroot(from_int(7**17), 17, 5, 'f'), from_int(7))
# public API: cbrt of a perfect cube, round down, 34-bit precision
mp.prec = 200
r = mpf(322563425)/2
y = r**3                      # exact
mp.prec = 53
got = cbrt(y, prec=34, rounding='d')
chk("cbrt((322563425/2)**3, prec=34, rounding='d')", got._mpf_, r._mpf_)
chk("same, rounding='n' (control)", cbrt(y, prec=34, rounding='n')._mpf_, r._mpf_)
sys.exit(int(fail))
