import sys, os; sys.path.insert(0, os.getcwd())
# powm1 returns 0 although x**y != 1 (the exact integer-power path is refused for n*(span+2) >= 10**6)
from fractions import Fraction
from mpmath import mp, mpf, powm1
from mpmath.libmp import from_man_exp
mp.prec = 53
D = 14000
x = mp.make_mpf(from_man_exp(-((1 << D) + 1), -D))    # x = -(1 + 2**-14000), exact
bad = 0
for y in (70, 72):
    w = powm1(x, y)
    # exact: (1+e)**y - 1 > y*e
    print("powm1(-(1+2**-14000), %d) = %s   expected about %d*2**-14000 = %s" %
          (y, w, y, mp.nstr(mpf(y)*mpf(2)**-D, 15)))
    if w == 0: bad = 1
print("x**y == 1 ?", Fraction((1 << D) + 1, 1 << D)**72 == 1)
sys.exit(bad)
