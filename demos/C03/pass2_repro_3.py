import sys, os; sys.path.insert(0, os.getcwd())
# positive power whose exact value needs 1011 bits: not correctly rounded, and differs from the mpc path
from mpmath import mp, mpf, mpc
from mpmath.libmp import mpf_pow_int, from_man_exp, to_str
m = 228127943768605425236149326822941093900459375078185254025994725754919269242533103938392833708080700507
x = from_man_exp(m, -337); n = 3; prec = 8
got = mpf_pow_int(x, n, prec, 'n')
want = from_man_exp(m**n, -337*n, prec, 'n')     # exact cube (1011 bits), rounded once
print("x = %d * 2^-337, n=3, prec=8, nearest" % m)
print("observed", got, to_str(got, 6), " expected", want, to_str(want, 6))
m2 = 759962953889377418306609076100759788917128648494121692269692515807898772590236330063257923961615137675
got2 = mpf_pow_int(from_man_exp(m2, -339), 3, 3, 'f'); want2 = from_man_exp(m2**3, -339*3, 3, 'f')
print("floor, prec=3: observed", got2, "expected", want2, "(a whole ulp below the correctly rounded value)")
mp.prec = 8
X = mp.make_mpf(x); a = X ** 3; b = (mp.make_mpc((x, (0,0,0,0))) ** 3).real
print("x**3 as mpf:", a._mpf_, "  as mpc (real part):", b._mpf_)
sys.exit(1 if (got != want or got2 != want2 or a != b) else 0)
