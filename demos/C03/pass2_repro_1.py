import sys, os; sys.path.insert(0, os.getcwd())
# integer-valued rational exponent (Fraction / mpq) is rounded to the working precision
from fractions import Fraction
from mpmath import mp, mpf
from mpmath.rational import mpq
mp.prec = 53
n = 2**53 + 1                      # odd integer, needs 54 bits
bad = 0
for base in (-1, -3, 3):
    x = mpf(base)
    want = x ** n                  # int exponent: handled exactly by mpf_pow_int
    for e in (Fraction(n), Fraction(n, 1), mpq(n, 1), Fraction(-n)):
        ref = want if e > 0 else x ** (-n)
        got = x ** e
        ok = (got == ref)
        bad += not ok
        print("base=%s exponent=%r: observed %s  expected %s  %s" %
              (base, e, got, ref, "ok" if ok else "VIOLATION"))
print("mp.isint(Fraction(n)) =", mp.isint(Fraction(n)))
sys.exit(1 if bad else 0)
