import sys, os; sys.path.insert(0, os.getcwd())
# negative exponents: x^|n| is rounded to prec+5 bits first although it is a small exact integer
from fractions import Fraction
from mpmath.libmp import mpf_pow_int, from_int, from_rational, to_str
def val(v): return (-1)**v[0] * Fraction(int(v[1])) * Fraction(2)**v[2]
bad = 0
for base, n, prec, rnd in [(5, -11, 3, 'n'), (7, -17, 10, 'n'), (3, -7, 4, 'c'), (3, -19, 10, 'f'), (-3, -7, 5, 'f')]:
    got = mpf_pow_int(from_int(base), n, prec, rnd)
    exact = Fraction(1, base**-n)
    want = from_rational(1, base**-n, prec, rnd)       # correctly rounded quotient
    if base < 0: want = from_rational(-1, (-base)**-n, prec, rnd)
    ulp = Fraction(2)**(want[2] + want[3] - prec)
    err = abs(val(got) - exact) / ulp
    ok = got == want
    bad += not ok
    print("%d**%d prec=%d rnd=%s: observed %s expected %s  error %.4f ulp (|base|^|n| has %d bits) %s" % (
        base, n, prec, rnd, to_str(got, 8), to_str(want, 8), err, (abs(base)**-n).bit_length(), "ok" if ok else "VIOLATION"))
sys.exit(1 if bad else 0)
