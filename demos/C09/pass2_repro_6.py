# (adjacent to C09, rounding of results) mpf + complex leaves the imaginary part
# unrounded: mpc_add_mpf passes it through, and here it is the raw 53-bit from_float.
import sys, os; sys.path.insert(0, os.getcwd())
from mpmath import mp, mpf, mpc
mp.prec = 10
a, z = mpf(1), 0.1j
r1, r2, r3 = a + z, mpc(a) + z, -(-a - z)
print("mp.prec=10  a + z       imag raw:", r1._mpc_[1], "(52-bit mantissa at a 10-bit precision)")
print("            mpc(a) + z  imag raw:", r2._mpc_[1])
print("            -(-a - z)   imag raw:", r3._mpc_[1])
print("            (a + z) == (mpc(a) + z):", r1 == r2)
bad = r1._mpc_[1][3] > mp.prec or r1 != r2
mp.prec = 53
sys.exit(1 if bad else 0)
