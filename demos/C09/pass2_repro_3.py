# float(constant) is doubly rounded when mp.prec > 53: float(mp.e) at mp.prec=54
# is not the double nearest to e.  DEBATABLE (a lazy constant has the value of
# its mp.prec-bit evaluation).
import sys, os; sys.path.insert(0, os.getcwd())
import math
from mpmath import mp, libmp
cases = [('e', 54), ('khinchin', 54), ('khinchin', 56), ('mertens', 54)]
bad = False
for name, p in cases:
    c = getattr(mp, name)
    expected = libmp.to_float(c.func(500, 'n'), rnd='n')   # nearest double to the true constant
    mp.prec = p
    got = float(c)
    print("float(mp.%s) at mp.prec=%d: observed %r expected %r %s" %
          (name, p, got, expected, "ok" if got == expected else "WRONG"))
    bad |= got != expected
mp.prec = 53
print("math.e =", repr(math.e))
sys.exit(1 if bad else 0)
