# float()/complex() of a zero-width interval-context mpf, and libmp.to_float /
# mpc_to_complex with their default rnd, truncate instead of rounding to nearest.
import sys, os; sys.path.insert(0, os.getcwd())
from mpmath import mp, iv, libmp
n = 2**60 + 129                 # 61 bits; doubles around it: 2^60 and 2^60+256
expected = float(n)             # Python's correctly rounded int->float: 2^60+256
mp.prec = iv.prec = 100
t = libmp.from_int(n)
obs = {
 'float(iv.mpf(n))':            float(iv.mpf(n)),
 'complex(iv.mpf(n)).real':     complex(iv.mpf(n)).real,
 'float(iv.mpf(-n)) (negated)': -float(iv.mpf(-n)),
 'libmp.to_float(t)':           libmp.to_float(t),
 'libmp.mpc_to_complex((t,t)).imag': libmp.mpc_to_complex((t, t)).imag,
}
print("input n = 2**60+129 =", n, " expected nearest double =", repr(expected))
print("control float(mp.mpf(n)) =", repr(float(mp.mpf(n))))
fail = False
for k, v in obs.items():
    ok = (v == expected)
    fail |= not ok
    print("%-36s observed %r  %s" % (k, v, "ok" if ok else "WRONG (truncated)"))
sys.exit(1 if fail else 0)
