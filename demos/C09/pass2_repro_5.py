# A Python complex on the LEFT of an mpf (c - x, c / x, c ** x) is first rounded to
# the working precision (mpf_convert_rhs -> context.mpc(c)), so it is not taken at
# its exact value; floats, and a complex on the right, are taken exactly.
import sys, os; sys.path.insert(0, os.getcwd())
from mpmath import mp, mpf, mpc
mp.prec = 10
x = mpf(1)
c = complex(1025.0, 0.0)          # 1025 needs 11 bits
rows = [
 ("c - x",             c - x,             mpc(1024, 0)),   # exact 1024, representable
 ("mp.convert(c) - x", mp.convert(c) - x, mpc(1024, 0)),
 ("1025.0 - x (float)", 1025.0 - x,       mpf(1024)),
 ("-(x - c)",          -(x - c),          mpc(1024, 0)),
 ("c / mpf(5)",        c / mpf(5),        mpc(205, 0)),    # exact 205, representable
]
bad = False
for name, got, want in rows:
    ok = (got == want)
    bad |= not ok
    print("mp.prec=10  %-20s observed %-22s expected %-18s %s" % (name, mp.nstr(got, 8), mp.nstr(want, 8), "ok" if ok else "WRONG"))
mp.prec = 53
sys.exit(1 if bad else 0)
