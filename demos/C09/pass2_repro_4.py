# Values strictly beyond the largest double but below 2^1024 - 2^970 convert to
# the largest double, not to infinity.  DEBATABLE: the statement's clause
# "infinities for values beyond the largest double" taken literally; IEEE
# round-to-nearest (and Python's float(int)) give MAXD here.
import sys, os; sys.path.insert(0, os.getcwd())
import math
from mpmath import mp, mpf, mpc
mp.prec = 1100
MAXD = sys.float_info.max
x = mpf(MAXD) + 1                       # MAXD + 1  > largest double
y = mpf(2)**1024 - mpf(2)**970 - 1      # just below the rounding midpoint
for name, v in (("MAXD+1", x), ("2^1024-2^970-1", y)):
    print(name, "> MAXD:", v > MAXD, " float ->", repr(float(v)), " complex ->", complex(mpc(v, -v)),
          " literal reading expects inf")
bad = not math.isinf(float(x)) or not math.isinf(float(y))
print("control: float(2^1024-2^970) =", float(mpf(2)**1024 - mpf(2)**970))
mp.prec = 53
sys.exit(1 if bad else 0)
