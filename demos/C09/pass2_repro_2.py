# mpf(f) / mpc(c) do not represent the float exactly when mp.prec < 53
# (mp.convert(f) does).  DEBATABLE: by design the constructor rounds to mp.prec.
import sys, os; sys.path.insert(0, os.getcwd())
from fractions import Fraction
from mpmath import mp, mpf, mpc, libmp
def val(t):
    p, q = libmp.to_rational(t); return Fraction(p, q)
mp.prec = 10
f, c = 0.1, complex(0.1, 0.3)
x, z, y = mpf(f), mpc(c), mp.convert(f)
print("mp.prec = 10, f =", repr(f), "exact value", Fraction(f))
print("mpf(f)        =", val(x._mpf_), " expected", Fraction(f))
print("mpc(c).imag   =", val(z._mpc_[1]), " expected", Fraction(c.imag))
print("mp.convert(f) =", val(y._mpf_), "(exact)")
bad = val(x._mpf_) != Fraction(f) or val(z._mpc_[1]) != Fraction(c.imag)
mp.prec = 53
sys.exit(1 if bad else 0)
