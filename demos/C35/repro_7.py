# pslq: the "one number is too small" guard compares UNnormalised x with tol (which is otherwise relative
# to ||x||): exact small relations are not found after a harmless rescaling of x
import sys, os; sys.path.insert(0, os.getcwd())
from mpmath import mp, mpf, pslq, pi, e
mp.prec = 53
bad = False
for xs, kw in [([mpf(3), mpf(5), mpf(7)], {}), ([+pi, +e, 3*pi - 2*e], {}), ([mpf(1), mpf(2)], dict(tol=0.2))]:
    for sc in ([0, -50] if not kw else [0, -10]):
        v = [t * mpf(2)**sc for t in xs]
        try: r = pslq(v, **kw)
        except Exception as ex: r = repr(ex)
        print('scale 2**%d' % sc, [mp.nstr(t, 6) for t in v], kw, '->', r)
        if sc and r is None: bad = True
try: print('scale 2**-100, tol=2**-105 ->', pslq([mpf(3) * mpf(2)**-100, mpf(5) * mpf(2)**-100], tol=mpf(2)**-105))
except ZeroDivisionError: print('scale 2**-100, tol=2**-105 -> ZeroDivisionError (norm underflows to 0 in fixed point)')
print('expected: the same relation at every scale (double precision represents all inputs exactly)')
print('VIOLATION' if bad else 'ok')
sys.exit(1 if bad else 0)
