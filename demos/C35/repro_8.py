# pslq: default maxsteps=100 gives up on exact relations with coefficients < maxcoeff although precision suffices
import sys, os; sys.path.insert(0, os.getcwd())
from mpmath import mp, mpf, pslq, pi, e, euler, catalan, log, zeta, sqrt
mp.prec = 300
base = [+pi, +e, +euler, +catalan, log(2), zeta(3)]
cc = [123, -456, 789, -321, 654, -987]; k = 7
mp.prec = 340
last = -sum(c*b for c, b in zip(cc, base)) / k
mp.prec = 300
xs = base + [+last]
r1 = pslq(xs)                                  # maxcoeff=1000, maxsteps=100
r2 = pslq(xs, maxsteps=10000)
print('planted relation', cc + [k], 'n=7, prec=300 (needs ~ 7*10 = 70 bits)')
print('pslq(xs)                 ->', r1)
print('pslq(xs, maxsteps=10000) ->', r2)
bad = r1 is None and r2 is not None
print('VIOLATION (relation exists, precision suffices, not found with defaults)' if bad else 'ok')
sys.exit(1 if bad else 0)
