import sys, os; sys.path.insert(0, os.getcwd())
# pslq / findpoly round their operands to the working precision (53 bits) and
# verify the relation against the rounded values only; with maxcoeff >= 1e5
# the result misses the bound for the operands that were actually passed.
from fractions import Fraction as F
from mpmath import mp, mpf
mp.prec = 53
tol = F(1, 2**39)                      # default tol = 2**-int(0.75*53)
def ratio(c, xs):
    s = sum(a*b for a, b in zip(c, xs)); n2 = sum(v*v for v in xs)
    return float(s*s/(tol*tol*n2))**0.5
xs = [F(39397, 134758), F(77695, 102392), F(5399, 16507)]
r = mp.pslq(xs, maxcoeff=10**6, maxsteps=1000)
r1 = ratio(r, xs)
print("pslq(%s, maxcoeff=10**6) = %s" % (xs, r))
print("  |sum c_k x_k| / (tol*||x||) = %.4g  (expected <= 1)" % r1)
man = 695946586343996935601608004496071736439098525704589673975744372574013260999682975250813127
x = mp.make_mpf((0, man, -299, 299))   # an mpf carrying 299 bits
p = mp.findpoly(x, 2, maxcoeff=10**6)
fx = F(man, 2**299)
r2 = ratio(p[::-1], [fx**i for i in range(len(p))])
print("findpoly(<299-bit mpf %s>, 2, maxcoeff=10**6) = %s" % (mp.nstr(x, 20), p))
print("  |P(x)| / (tol*||(1,x,x^2)||) = %.4g  (expected <= 1)" % r2)
sys.exit(1 if (r1 > 1 or r2 > 1) else 0)
