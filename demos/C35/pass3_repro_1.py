import sys, os; sys.path.insert(0, os.getcwd())
# fp.findpoly returns polynomials that do not have x as a root within tol:
# the powers x**i are rounded to 53 bits before pslq sees them (the
# "prec+60" guard bits of findpoly are a no-op in the fp context).
from fractions import Fraction as F
from mpmath import fp, mp
def ratio(x, p, tol):           # |P(x)| / (tol*||(1,x,..,x^d)||_2), exact in Q
    c = p[::-1]; xs = [F(x)**i for i in range(len(c))]
    s = sum(a*b for a, b in zip(c, xs)); n2 = sum(v*v for v in xs)
    return float(s*s / (F(tol)**2 * n2))**0.5
bad = 0
for x, n, kw, tol in [(1.047184, 4, dict(maxcoeff=10**6), 2.0**-39),
                      (1.5278171763034927, 5, dict(maxcoeff=10**5, tol=1e-14), 1e-14)]:
    p = fp.findpoly(x, n, **kw); q = mp.findpoly(x, n, **kw)
    r = ratio(x, p, tol)
    print("fp.findpoly(%r, %d, %s) = %s" % (x, n, kw, p))
    print("  observed |P(x)|/(tol*||xs||) = %.4g   expected <= 1" % r)
    print("  mp.findpoly gives %s, ratio %.4g" % (q, ratio(x, q, tol) if q else 0))
    bad += r > 1
sys.exit(1 if bad else 0)
