import sys, os; sys.path.insert(0, os.getcwd())
# identify raises ValueError (from pslq([1, t, t**2])) instead of returning a
# formula or None when a transformed value t lies between tol and
# 2^-((prec+60)/2); possible for prec > 150 bits (here t = 1/exp(x) = 1.6e-35).
from mpmath import mp, mpf
mp.dps = 50
out = []
for args, kw in [((mpf('80.123456789'),), {}), ((mpf(80),), {'full': True})]:
    try:
        r = mp.identify(*args, **kw); bad = False
    except ValueError as ex:
        r = 'ValueError: %s' % ex; bad = True
    print('identify(%s, %s) at dps=50 ->' % (args[0], kw), r if bad else str(r)[:60])
    out.append(bad)
print("expected: None / a list of formulas (identify(79.0) and identify(83.0) return '79', '83')")
sys.exit(1 if any(out) else 0)
