# identify: a "relation" 1*t + 0*1 + 0*pi (t tiny) is accepted and printed as the constant 0
import sys, os; sys.path.insert(0, os.getcwd())
from mpmath import mp, mpf, identify
mp.dps = 15
x = mpf('24.530813652')
s = identify(x, ['pi'])                        # all defaults, full=False
print('x =', x, ' identify(x, ["pi"]) =', repr(s))
try:
    v = eval(s, {'pi': mp.pi, 'log': mp.log, 'sqrt': mp.sqrt, 'exp': mp.exp}) if s else None
    print('evaluates to', v)
    bad = s is not None and abs(v - x) > 1e-9
except ZeroDivisionError as ex:
    print('evaluating the returned expression raises ZeroDivisionError')
    bad = True
full = identify(mpf('24.3'), ['pi'], full=True)
print('identify(24.3, ["pi"], full=True)[:2] =', full[:2])
print('expected: None, or an expression evaluating to x within tol')
print('VIOLATION' if bad else 'ok')
sys.exit(1 if bad else 0)
