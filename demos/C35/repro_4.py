# identify: quadratic step accepts a double-root polynomial (t-21)^2, error ~ sqrt(tol*||x||)
import sys, os; sys.path.insert(0, os.getcwd())
from mpmath import mp, mpf, identify, findpoly, nstr
mp.dps = 15
x = mpf('21.000041919')
s = identify(x)                                # all defaults
v = eval(s, {'sqrt': mp.sqrt}) if s else None
print('x =', x, ' identify(x) =', s, ' evaluates to', v)
print('findpoly(x, 2) =', findpoly(x, 2))
tol = mp.eps**0.7
print('abs err', nstr(abs(v - x), 3), ' tol', nstr(tol, 3), ' ratio', nstr(abs(v - x)/tol, 3))
print('expected: None or an expression within tol of x')
bad = s is not None and abs(v - x) > 10*tol
print('VIOLATION' if bad else 'ok')
sys.exit(1 if bad else 0)
