# pslq: small-magnitude inputs are truncated to fixed point (2**-(prec+60) absolute), the relation is
# certified on the truncated numbers, so the answer depends on the scale of x
import sys, os; sys.path.insert(0, os.getcwd())
from fractions import Fraction as F
from mpmath import mp, mpf, pslq, pi
def fr(v):
    s, m, e, b = mpf(v)._mpf_; return F(-m if s else m) * F(2)**e
mp.dps = 90                                    # prec = 302
tol = mpf('1e-62')
x1 = pi * mpf(2)**-170                         # ~ 2.1e-51
x2 = 2*x1 + mpf(2)**-366                       # exactly representable; 2*x1 - x2 = -2**-366
xs = [x1, x2]
c = pslq(xs, tol=tol)
print('prec', mp.prec, 'x =', [mp.nstr(v, 10) for v in xs], 'tol = 1e-62')
print('pslq ->', c)
X = [fr(v) for v in xs]
res = abs(sum(ci*xi for ci, xi in zip(c, X))) if c else None
bound2 = fr(tol)**2 * sum(v*v for v in X)
ratio = float(res*res / bound2)**0.5 if c else None
print('|sum c_k x_k| / (tol*||x||_2) =', ratio, ' (expected <= 1, or None returned)')
print('same vector times 2**170 ->', pslq([v * 2**170 for v in xs], tol=tol))
bad = c is not None and res*res > bound2
print('VIOLATION' if bad else 'ok')
sys.exit(1 if bad else 0)
