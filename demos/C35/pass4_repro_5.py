import sys, os; sys.path.insert(0, os.getcwd())
# identify with a dict of "formula:value pairs" (docstring) pastes the formula
# keys unparenthesised into the result (the list form parenthesises them), so
# the returned expression does not evaluate to x.
from mpmath import mp, mpf, e, pi
mp.dps = 30
x = 3/(e+1)
s_dict = mp.identify(x, {'e+1': e+1})
s_list = mp.identify(x, ['e+1'])
ns = dict((k, getattr(mp, k)) for k in dir(mp))
v = eval(s_dict, ns)
print('x =', x)
print("identify(x, {'e+1': e+1}) =", s_dict, ' evaluates to', v)
print("identify(x, ['e+1'])      =", s_list, ' evaluates to', eval(s_list, ns))
bad = abs(v - x) > 1e-20
sys.exit(1 if bad else 0)
