# pslq: success is read off the fixed-point vector y, whose accumulated error is ~ max|c| * 2**-(prec+60);
# with a small tol and large maxcoeff the exact relation is skipped and a non-relation returned
import sys, os; sys.path.insert(0, os.getcwd())
from fractions import Fraction as F
from mpmath import mp, mpf, pslq, pi
def fr(v):
    s, m, e, b = mpf(v)._mpf_; return F(-m if s else m) * F(2)**e
mp.prec = 53
xs = [mpf(1), +pi]                             # +pi = 884279719003555 / 2**48 exactly
tol = mpf(2)**-73; M = 10**30
c = pslq(xs, tol=tol, maxcoeff=M, maxsteps=100000)
print('x = [1, pi@53 bits], tol = 2**-73, maxcoeff = 1e30')
print('pslq ->', c)
X = [fr(v) for v in xs]
res = abs(sum(ci*xi for ci, xi in zip(c, X)))
bound = fr(tol) * F(int(mp.sqrt(sum(v*v for v in X)) * 2**60), 2**60)
print('|sum c_k x_k| =', float(res), '  tol*||x||_2 =', float(bound), '  ratio =', float(res/bound))
print('expected: the exact relation [-884279719003555, 281474976710656] (residual 0), which is what')
print('          tol=2**-61 returns:', pslq(xs, tol=mpf(2)**-61, maxcoeff=M, maxsteps=100000))
bad = res > bound
print('VIOLATION' if bad else 'ok')
sys.exit(1 if bad else 0)
