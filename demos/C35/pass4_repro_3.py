import sys, os; sys.path.insert(0, os.getcwd())
# findpoly misses an exact polynomial with coefficients < maxcoeff when the
# minimal polynomial has a coefficient >= maxcoeff: x^3-4x^2+x-1 (coefficient 4)
# times (x+1) is x^4-3x^3-3x^2-1 (coefficients < 4).  pslq on the same powers
# rounded to the working precision (less accurate input) does find it.
from mpmath import mp, findroot, polyval
mp.prec = 200
x = findroot(lambda t: t**3 - 4*t**2 + t - 1, 3.8)
want = [1, -3, -3, 0, -1]
print('x =', mp.nstr(x, 30), ' P(x) for', want, '=', mp.nstr(polyval(want, x), 3))
r = mp.findpoly(x, 4, maxcoeff=4, maxsteps=10000)
print('findpoly(x, 4, maxcoeff=4, maxsteps=10000) =', r, ' (expected', want, 'or its negative)')
print('pslq([x**i at 200 bits], maxcoeff=4)        =', mp.pslq([x**i for i in range(5)], maxcoeff=4, maxsteps=10000))
sys.exit(1 if r is None else 0)
