# identify: the pslq tolerance on the transformed value t=c/exp(x) (tiny) is not carried back to x
import sys, os; sys.path.insert(0, os.getcwd())
from mpmath import mp, mpf, identify, nstr
mp.dps = 15
ns = {'pi': mp.pi, 'e': mp.e, 'log': mp.log, 'sqrt': mp.sqrt, 'exp': mp.exp}
bad = False
for xs, consts, tol in [('19.040619666', ['pi', 'e'], None), ('16.28001389', ['pi'], 1e-8)]:
    x = mpf(xs)
    s = identify(x, consts, tol=tol)
    teff = mpf(tol) if tol else mp.eps**0.7
    v = eval(s, ns)
    err = abs(v - x)
    print('x =', xs, 'consts =', consts, 'tol =', nstr(teff, 3))
    print('  identify ->', s)
    print('  evaluates to', nstr(v, 15), ' abs err', nstr(err, 3), ' rel err', nstr(err/x, 3),
          ' = %s x tol' % nstr(err/x/teff, 4))
    bad |= err/x > 10*teff
print('expected: |value - x| <= tol (absolute or relative)')
print('VIOLATION' if bad else 'ok')
sys.exit(1 if bad else 0)
