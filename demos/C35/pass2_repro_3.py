import sys, os; sys.path.insert(0, os.getcwd())
# pslq misses an exact small relation when it first meets another relation whose largest
# coefficient equals maxcoeff: that one is rejected, y keeps an exact zero, H degenerates
# and the loop stops at "t0 == 0" -> None.
from mpmath import mp, mpf
mp.prec = 100
x = [mpf(-15), mpf(1), mpf(-4)]
small = [-1, -3, 3]                       # exact relation, max|c| = 3 < 4
assert sum(c*v for c, v in zip(small, x)) == 0
r4 = mp.pslq(x, maxcoeff=4, maxsteps=10000)
r5 = mp.pslq(x, maxcoeff=5, maxsteps=10000)
print("x =", [int(v) for v in x], " exact relation", small, "(max|c| = 3)")
print("pslq(x, maxcoeff=4) =", r4, "  expected: a relation with max|c| < 4, e.g.", small)
print("pslq(x, maxcoeff=5) =", r5)
sys.exit(1 if r4 is None else 0)
