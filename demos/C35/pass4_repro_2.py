import sys, os; sys.path.insert(0, os.getcwd())
# pslq gives up (returns None) after it has met a relation whose coefficients
# are >= maxcoeff, although a relation with all |c_k| < maxcoeff exists and
# 200 bits are ample (needed: about 5*log2(1000) = 50 bits).
from mpmath import mp, pi, e, euler
mp.prec = 200
v = [+pi, +e, +euler, 1000*pi]
c = [621, -689, 820, 810]
x = v + [-sum(a*b for a, b in zip(c, v))]
planted = c + [1]                        # max |c_k| = 820 < 1000
mp.prec = 1000
res = abs(sum(a*b for a, b in zip(planted, x)))
mp.prec = 200
print('x = [pi, e, euler, 1000*pi, -(621*pi - 689*e + 820*euler + 810000*pi)] at 200 bits')
print('planted relation', planted, 'residual %s (tol*||x|| = %s)' % (mp.nstr(res, 3), mp.nstr(mp.mpf(2)**-150 * mp.norm(x), 3)))
r = mp.pslq(x, maxsteps=50000)
print('pslq(x, maxsteps=50000)               =', r, '  (expected: a relation, e.g. the planted one)')
print('pslq(x, maxcoeff=10**4, maxsteps=50000) =', mp.pslq(x, maxcoeff=10**4, maxsteps=50000), ' (the other relation, rejected above)')
sys.exit(1 if r is None else 0)
