import sys, os; sys.path.insert(0, os.getcwd())
# identify: x within sqrt(tol) of a small rational p/q is "identified" as p/q through a
# double-root quadratic (q*t-p)^2, printed with sqrt(0); the formula misses x by far more than tol.
from mpmath import mp, mpf
mp.dps = 15
tol = mp.eps**0.7                       # identify's default tolerance, ~1.1e-11
bad = 0
for xs in ['1.5000001', '0.3333334', '1e-6']:
    x = mpf(xs)
    s = mp.identify(x)
    v = eval(s, dict((n, getattr(mp, n)) for n in dir(mp))) if s else None
    err = abs(v - x) if s else mpf(0)
    print("identify(%s) = %r -> value %s, |value-x| = %s, tol = %s" %
          (xs, s, v, mp.nstr(err, 3), mp.nstr(tol, 3)))
    if s is not None and err > 100*tol:
        bad += 1
print("expected: None or a formula with |value-x| <= tol; violations:", bad)
sys.exit(1 if bad else 0)
