import sys, os; sys.path.insert(0, os.getcwd())
# fp.findpoly returns a polynomial that is a relation for the double-rounded
# powers of x, not for x: |P(x)| exceeds tol*||(1,x,..,x^k)||_2 (default tol 2^-39).
from fractions import Fraction as F
from mpmath import fp
x, n, M = 1.4826848907589607, 3, 10**6
r = fp.findpoly(x, n, maxcoeff=M)
print('fp.findpoly(%r, %d, maxcoeff=10**6) =' % (x, n), r)
bad = False
if r is not None:
    X = F(x); k = len(r) - 1
    P = abs(sum(c * X**(k-i) for i, c in enumerate(r)))        # exact P(x)
    nrm = float(sum(X**(2*i) for i in range(k+1)))**0.5
    tol = 2.0**-39                                             # default: 2^-int(0.75*53)
    print('exact |P(x)| = %.4g, allowed tol*||x||_2 = %.4g, ratio = %.3g' % (float(P), tol*nrm, float(P)/(tol*nrm)))
    print('expected: None or a polynomial with ratio <= 1')
    bad = float(P) > tol*nrm
sys.exit(1 if bad else 0)
