import sys, os; sys.path.insert(0, os.getcwd())
# An exact relation with coefficients <= 50 among 8 numbers, at 400 bits
# (far more than needed), is not found with the default maxsteps=100.
import random
from mpmath import mp, mpf
mp.prec = 400
random.seed(1)
n = 8
xs = [mpf(random.getrandbits(400))/2**400 + 1 for _ in range(n)]
cs = [random.randint(-50, 50) for _ in range(n)]; cs[-1] = 1
xs[-1] = -sum(c*v for c, v in zip(cs[:-1], xs[:-1]))
r = mp.pslq(xs, maxcoeff=1000)
r2 = mp.pslq(xs, maxcoeff=1000, maxsteps=10000)
print("planted relation:", cs)
print("pslq(xs, maxcoeff=1000) =", r, " (expected the planted relation)")
print("pslq(xs, maxcoeff=1000, maxsteps=10000) =", r2)
sys.exit(1 if r is None else 0)
