import sys, os; sys.path.insert(0, os.getcwd())
# identify: for large x the transform t = exp(c/x) is within tol of 1, pslq([t,1]) gives t = 1
# and identify returns the formula '1/log(1)', which cannot even be evaluated (division by zero).
from mpmath import mp, mpf
mp.dps = 15
bad = 0
for xs in ['1e12', '3.7e11', '1.2345e7']:
    x = mpf(xs)
    s = mp.identify(x)
    try:
        v = eval(s, dict((n, getattr(mp, n)) for n in dir(mp))) if s else None
        ok = s is None or abs(v - x) <= mp.eps**0.7 * abs(x)
    except ZeroDivisionError as e:
        v, ok = 'ZeroDivisionError', False
    print("identify(%s) = %r -> evaluates to %s" % (xs, s, v))
    bad += (not ok)
print("expected: None or a formula evaluating to x within tolerance; violations:", bad)
sys.exit(1 if bad else 0)
