import sys, os; sys.path.insert(0, os.getcwd())
# identify(full=True): for ln(x) in [tol/100, tol) the multiplicative step gets the relation
# [1,0,0,0,0]; prodstring returns None, None is stored as a "solution" and sorted(key=len) crashes.
from mpmath import mp, mpf
mp.dps = 15
x = mpf('1.000000000005')
print("identify(%s) =" % x, repr(mp.identify(x)))
try:
    r = mp.identify(x, full=True)
    print("identify(x, full=True) =", r); bad = None in r
except TypeError as e:
    print("identify(x, full=True) raised TypeError:", e); bad = True
print("expected: a list of formula strings (e.g. ['1', ...])")
sys.exit(1 if bad else 0)
