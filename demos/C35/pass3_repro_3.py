import sys, os; sys.path.insert(0, os.getcwd())
# identify accepts formulas up to 100*tol*max(1,|x|) away from x; for small x
# the returned formula can be exactly 0 (relative error 100%, 91*tol absolute).
from mpmath import mp, mpf
mp.dps = 15
ns = dict((k, getattr(mp, k)) for k in dir(mp))
tol = mp.eps**0.7
bad = 0
for xs, kw in [('1e-9', {}), ('1.500000001', {}), ('2.50003', dict(tol=1e-6))]:
    x = mpf(xs); t = mpf(kw.get('tol', tol))
    s = mp.identify(x, **kw)
    v = eval(s, ns)
    print("identify(%s, %s) = %r -> value %s; |v-x|/tol = %s (expected <= 1)" % (xs, kw, s, v, abs(v-x)/t))
    bad += abs(v-x) > t
sys.exit(1 if bad else 0)
