import sys, os; sys.path.insert(0, os.getcwd())
# pslq is not scale invariant: the guard "minx < tol//100" compares the UNnormalised x with tol,
# so an exact relation among small numbers is refused although the success test uses x/||x||.
from mpmath import mp, mpf
mp.prec = 100
a = mpf('1e-5')
r1 = mp.pslq([mpf(1), mpf(-1)], tol=1e-3)
r2 = mp.pslq([a, -a], tol=1e-3)
s = mpf(2)**-120
r3 = mp.pslq([mp.pi*s, -2*mp.pi*s])          # default tol = 2**-75
r4 = mp.pslq([+mp.pi, -2*mp.pi])
print("pslq([1,-1], tol=1e-3)        =", r1)
print("pslq([1e-5,-1e-5], tol=1e-3)  =", r2, "  expected [1, 1] (exact relation, residual 0)")
print("pslq([pi,-2pi])               =", r4)
print("pslq([pi,-2pi]*2**-120)       =", r3, "  expected [2, 1]")
sys.exit(1 if (r2 is None or r3 is None) else 0)
