import sys, os; sys.path.insert(0, os.getcwd())
# identify returns, unverified, a formula that does not evaluate to x when a
# constant's name cannot be eval'ed (addsolution: except NameError/SyntaxError/
# TypeError: pass).  Here exp(x*c) is within sqrt(tol) of the double root 1 of
# t^2-2t+1, so the quadratic branch yields log(1)/c = 0 for x = 1e-6.
from mpmath import mp, mpf, polylog, log, sqrt
mp.dps = 15
L = polylog(2, 0.5)
x = mpf('1e-6'); tol = mp.eps**0.7
s = mp.identify(x, {'Li2(1/2)': L})
good = mp.identify(x, {'L': L})
print("identify(1e-6, {'Li2(1/2)': polylog(2,0.5)}) =", s)
print("same constant under an evaluable name 'L'     =", good)
v = eval(s.replace('Li2(1/2)', 'L'), dict(log=log, sqrt=sqrt, L=L))
err = abs(v - x)
print("formula value =", v, " x =", x, " |v-x| =", err)
print("tol =", tol, " |v-x|/tol =", err/tol, " expected <= 1 (the code itself allows 100)")
# variant: the value of the constant given as a string (accepted by mpf) -> TypeError path
full = mp.identify(x, {'a': '0.5822405264650125'}, full=True)
print("full list with a string-valued constant:", full)
sys.exit(1 if err > 100*tol else 0)
