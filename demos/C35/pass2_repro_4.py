import sys, os; sys.path.insert(0, os.getcwd())
# pslq returns a vector that is not a relation: success is read off the fixed-point y (only
# 60 guard bits), so with coefficients ~1/tol the rounding of y0 = x/||x|| dominates.
from fractions import Fraction
from mpmath import mp, mpf
def frac(v):
    s, man, exp, bc = v._mpf_
    return (-1 if s else 1) * Fraction(int(man)) * Fraction(2)**exp
mp.prec = 100
x = [+mp.pi, +mp.e]
tol = mpf(2)**-100
c = mp.pslq(x, tol=tol, maxcoeff=10**40, maxsteps=100000)
print("prec=100  x=[pi, e]  tol=2**-100  maxcoeff=10**40")
print("pslq ->", c)
if c is None:
    print("no vector returned: no violation"); sys.exit(0)
fx = [frac(v) for v in x]
res = abs(sum(k*f for k, f in zip(c, fx)))
bound2 = frac(tol)**2 * sum(f*f for f in fx)
ratio = float(res*res/bound2)**0.5
print("|sum c_k x_k| = %.3e   tol*||x||_2 = %.3e   ratio = %.3e" % (float(res), float(bound2)**0.5, ratio))
print("expected: ratio <= 1 (or None)")
sys.exit(1 if ratio > 1 else 0)
