# identify: template '$y**2/$c**2' pastes a power-valued constant name without parentheses
import sys, os; sys.path.insert(0, os.getcwd())
from mpmath import mp, mpf, e, identify, nstr
mp.dps = 15
x = ((1 + 2*e**3) / (3*e**3))**2
s = identify(x, ['e**3'])                      # all defaults, full=False
v = eval(s, {'e': mp.e, 'sqrt': mp.sqrt, 'log': mp.log, 'exp': mp.exp})
print('x        =', nstr(x, 15))
print('identify =', s)
print('evaluates to', nstr(v, 15), ' (e**3**2 is e**9, not (e**3)**2)')
print('expected an expression evaluating to x within tol = eps**0.7 =', nstr(mp.eps**0.7, 3))
bad = abs(v - x) > 1e-9
print('VIOLATION' if bad else 'ok')
sys.exit(1 if bad else 0)
