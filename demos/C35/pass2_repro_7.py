import sys, os; sys.path.insert(0, os.getcwd())
# findpoly: the powers x**i are rounded to working precision before pslq, so with large
# maxcoeff the returned P is a relation for the rounded powers but P(x) exceeds tol*||(1,x,..,x^n)||.
from fractions import Fraction
from mpmath import mp, mpf
mp.prec = 53
x = mpf('2.033928426427809'); n = 3
p = mp.findpoly(x, n, maxcoeff=10**6, maxsteps=10000)
print("findpoly(%r, 3, maxcoeff=10**6) =" % x, p)
if p is None: sys.exit(0)
s, man, exp, bc = x._mpf_
fx = Fraction(int(man)) * Fraction(2)**exp
d = len(p) - 1
val = abs(sum(k*fx**(d-i) for i, k in enumerate(p)))
bound = Fraction(1, 2**39) * Fraction(float(sum(fx**(2*i) for i in range(d+1))**0.5))
print("|P(x)| exact = %.3e   tol*||powers|| = %.3e   ratio = %.2f" % (float(val), float(bound), float(val/bound)))
print("expected ratio <= 1")
sys.exit(1 if val > bound else 0)
