import sys, os; sys.path.insert(0, os.getcwd())
# C11: the prec setter is not atomic: for |n| > ~1.8e308 it stores the new prec, then
# prec_to_dps(n) raises OverflowError, so the assignment fails but prec is changed and dps is stale.
# Because PrecisionManager.__enter__ goes through the setter, a failing `with workprec/extraprec`
# never reaches __exit__ and leaves the context at the new precision.
from mpmath import mp, iv
from mpmath.libmp import prec_to_dps
bad = 0
def reset(c): c.prec = 77
def show(label, c):
    global bad
    p, d = c.prec, c.dps
    ok = (p, d) == (77, 22)
    bad += not ok
    print("%-34s -> prec = %s, dps = %s   expected prec = 77, dps = 22 %s" % (label, ("10**%d" % (len(str(p))-1)) if p > 10**9 else p, d, "" if ok else "  <-- VIOLATION"))
for c, name in ((mp, 'mp'), (iv, 'iv')):
    for v, vs in ((10**400, '10**400'), (-10**400, '-10**400')):
        reset(c)
        try: c.prec = v
        except OverflowError as e: pass
        show("%s.prec = %s raised OverflowError" % (name, vs), c)
reset(mp)
try:
    with mp.workprec(-10**400): pass
except OverflowError: pass
show("with mp.workprec(-10**400) raised", mp)
reset(mp)
try:
    with mp.extraprec(10**400): pass
except OverflowError: pass
show("with mp.extraprec(10**400) raised", mp)
reset(mp)
try: mp.dps = 10**400           # the dps setter is atomic
except OverflowError: pass
show("mp.dps = 10**400 raised (control)", mp)
mp._prec = mp._prec_rounding[0] = 53; mp._dps = 15
sys.exit(1 if bad else 0)
