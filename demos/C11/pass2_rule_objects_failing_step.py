import sys, os; sys.path.insert(0, os.getcwd())
# C11: the documented inverse-Laplace rule objects (doc/source/calculus/inverselaplace.txt,
# "Manual approach") do not restore the working precision when one of their methods raises.
from mpmath import mp
from mpmath.calculus.inverselaplace import FixedTalbot, Stehfest, deHoog
bad = 0
for cls in (FixedTalbot, Stehfest, deHoog):
    # (a) calc_time_domain_solution raises (bad transform values) -> its restore line is skipped
    mp.prec = 77
    rule = cls(mp)
    rule.calc_laplace_parameter(1.5)          # raises the precision (by design), remembers 77
    try: rule.calc_time_domain_solution([None]*len(rule.p), 1.5)   # manual_prec=False: must restore 77
    except Exception as e: ea = type(e).__name__
    pa = (mp.prec, mp.dps)
    # (b) calc_laplace_parameter itself raises (t = 0) after having raised the precision
    mp.prec = 77
    try: cls(mp).calc_laplace_parameter(0)
    except Exception as e: eb = type(e).__name__
    pb = (mp.prec, mp.dps)
    print("%-11s (a) time-domain step raised %s: prec,dps = %s   (b) parameter step raised %s: prec,dps = %s   expected (77, 22)"
          % (cls.__name__, ea, pa, eb, pb))
    bad += (pa != (77, 22)) + (pb != (77, 22))
    # for comparison the driver is fine:
    mp.prec = 77
    try: mp.invertlaplace(lambda p: 1/p, 0, method=cls)
    except Exception: pass
    assert (mp.prec, mp.dps) == (77, 22)
mp.prec = 53
print("violations:", bad)
sys.exit(1 if bad else 0)
