import sys, os; sys.path.insert(0, os.getcwd())
# DEBATABLE: an inverse-Laplace rule object keeps the precision saved by its
# last calc_laplace_parameter() for ever; every later calc_time_domain_solution()
# sets the context to that stale value (on normal return, and on failure even
# with manual_prec=True), whatever the precision is at that moment.
from mpmath import mp
from mpmath.calculus.inverselaplace import FixedTalbot, Stehfest, deHoog
bad = 0
for cls in (FixedTalbot, Stehfest, deHoog):
    mp.prec = 57
    r = cls(mp)
    r.calc_laplace_parameter(1)                 # raises the precision (by design)
    fp = [1/(p + 1) for p in r.p]
    r.calc_time_domain_solution(fp, 1)          # puts 57 back (by design)
    assert mp.prec == 57
    mp.prec = 100                               # the user goes on at another precision
    r.calc_time_domain_solution(fp, 1)          # e.g. reuses the abscissas with other values
    after_ok = (mp.prec, mp.dps)
    mp.prec = 100; err = 'no error'
    try:
        r.calc_time_domain_solution(fp, 0, manual_prec=True)   # t=0: fails
    except Exception as e:
        err = type(e).__name__
    after_fail = (mp.prec, mp.dps)
    print("%-11s entry (prec,dps)=(100, 29)  normal return -> %s   failing call [%s], manual_prec=True -> %s   expected (100, 29)"
          % (cls.__name__, after_ok, err, after_fail))
    bad += (after_ok != (100, 29)) + (after_fail != (100, 29))
print("violations:", bad)
sys.exit(1 if bad else 0)
