import sys, os; sys.path.insert(0, os.getcwd())
# C11 violation 2: a PrecisionManager (workprec/workdps/extraprec/extradps object)
# keeps the saved precision in a single attribute (self.origp), so re-entering the
# same object (nested 'with') loses the outer saved value: precision is not restored.
from mpmath import mp
res = []
for name, arg in [('workprec', 100), ('workdps', 30), ('extraprec', 10), ('extradps', 5)]:
    mp.prec = 61
    entry = (mp.prec, mp.dps)
    m = getattr(mp, name)(arg)
    with m:
        with m:
            pass
    exit_ = (mp.prec, mp.dps)
    print("input   : mp.prec=61; m = mp.%s(%s); with m: with m: pass" % (name, arg))
    print("observed: (prec, dps) after the outer exit =", exit_)
    print("expected: (prec, dps) after the outer exit =", entry)
    res.append(exit_ != entry)
# also when the inner block raises
mp.prec = 61
m = mp.extraprec(10)
try:
    with m:
        with m:
            raise KeyError
except KeyError:
    pass
print("with exception: prec =", mp.prec, "(expected 61)")
res.append(mp.prec != 61)
print("VIOLATION" if any(res) else "ok")
sys.exit(1 if any(res) else 0)
