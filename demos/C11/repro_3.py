import sys, os; sys.path.insert(0, os.getcwd())
# C11 violation 3 (debatable): the public inverse-Laplace rule classes change the
# context precision in calc_laplace_parameter() and only restore it on the normal
# exit of calc_time_domain_solution() (no try/finally, single saved slot).
from mpmath import mp
from mpmath.calculus.inverselaplace import FixedTalbot, Stehfest, deHoog
bad = []
for cls in (FixedTalbot, Stehfest, deHoog):
    # (a) failure inside calc_time_domain_solution
    mp.prec = 61; entry = (mp.prec, mp.dps)
    r = cls(mp)
    r.calc_laplace_parameter(1)
    fp = [0 for p in r.p]                 # F(p) == 0  -> 0/0 in deHoog; fp=None elements for others
    if cls is not deHoog: fp = [None for p in r.p]
    try: r.calc_time_domain_solution(fp, 1)
    except Exception as e: err = type(e).__name__
    else: err = None
    a = (mp.prec, mp.dps)
    # (b) calc_laplace_parameter called twice (e.g. for a new t), then normal completion
    mp.prec = 61
    r = cls(mp)
    r.calc_laplace_parameter(1); r.calc_laplace_parameter(2)
    r.calc_time_domain_solution([1/(p+1) for p in r.p], 2)
    b = (mp.prec, mp.dps)
    print("%-11s entry=%s  after failing calc_time_domain_solution (%s): %s ; after param,param,solve: %s"
          % (cls.__name__, entry, err, a, b))
    bad.append(a != entry or b != entry)
print("expected: (61, 17) everywhere")
print("VIOLATION" if any(bad) else "ok")
sys.exit(1 if any(bad) else 0)
