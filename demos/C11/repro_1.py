import sys, os; sys.path.insert(0, os.getcwd())
# C11 violation 1: the generator returned by mp.diffs() resets the working
# precision to a stale value captured at an earlier next() call.
from mpmath import mp
mp.prec = 61
g = mp.diffs(mp.sin, 1, 6)          # derivatives f, f', ..., f^(6) at x=1
next(g); next(g)                     # consumed at prec 61 (batch k=1 starts, callprec=61 stored)
mp.prec = 100                        # caller legitimately changes the precision
entry = (mp.prec, mp.dps)
d2 = next(g)                         # public call: must leave prec as on entry (100)
exit_ = (mp.prec, mp.dps)
print("input   : g = mp.diffs(sin, 1, 6) started at prec=61; mp.prec = 100; next(g)")
print("observed: (prec, dps) after next(g) =", exit_)
print("expected: (prec, dps) after next(g) =", entry)
# same defect seen from inside a workprec block
mp.prec = 61
g = mp.diffs(mp.exp, 0, 6); next(g); next(g)
with mp.workprec(300):
    next(g)
    inside = mp.prec
print("inside 'with mp.workprec(300)': prec after next(g) =", inside, "(expected 300)")
bad = exit_ != entry or inside != 300
print("VIOLATION" if bad else "ok")
sys.exit(1 if bad else 0)
