# A Decimal (an exact rational value) is rounded to the working precision before it is classified,
# unlike int / mpq / Fraction (repair e5a5128): wrong isint, isnpint and a wrong nearest integer
import sys, os; sys.path.insert(0, os.getcwd())
import signal; signal.alarm(20)
from decimal import Decimal as D
from fractions import Fraction as F
from mpmath import mp
mp.prec = 53
bad = 0
a = D('3.0000000000000000000000000000001'); b = D('2.4999999999999999999999999999'); c = D('-3.' + '0'*30 + '1')
for label, got, exp in [
    ('isint(%r)' % a, mp.isint(a), mp.isint(F(a))),
    ('isnpint(%r)' % c, mp.isnpint(c), mp.isnpint(F(c))),
    ('nint_distance(%r)' % b, mp.nint_distance(b), mp.nint_distance(F(b))),
    ('nint_distance(%r)' % a, mp.nint_distance(a), mp.nint_distance(F(a))),
    ('isint(str) %r' % str(a), mp.isint(str(a)), False)]:
    v = got != exp
    print('%s = %r   expected (value of the equal Fraction) %r   %s' % (label, got, exp, 'VIOLATION' if v else 'ok'))
    bad += v
sys.exit(1 if bad else 0)
