import sys, os; sys.path.insert(0, os.getcwd())
from mpmath import mp, mpc, inf, nan, isnan
# mag of a complex number with a nan component depends on WHICH component is nan,
# because Python's max(a, nan) returns a and max(nan, a) returns nan.
bad = 0
for z in [mpc(3, nan), mpc(nan, 3), mpc(inf, nan), mpc(nan, inf), mpc(1e-300, nan)]:
    m = mp.mag(z)
    ok = isnan(m)
    print("mag(%r) = %r   expected nan (documented: mag(nan) = nan)%s" % (z, m, "" if ok else "   <-- WRONG"))
    bad += not ok
print("note: mag(mpc(3,nan)) = 3 is 1+max(2, nan); abs(mpc(3,nan)) =", abs(mpc(3, nan)))
sys.exit(1 if bad else 0)
