import sys, os; sys.path.insert(0, os.getcwd())
# nint_distance: the same value gives different (n, d) as mpq and as mpf (half-integer ties, and d off by one)
from mpmath import mp, mpf
from mpmath.rational import mpq
cases = [(-5, 2), (5, 2), (-1, 2), (21, 4), (3, 8)]
bad = 0
for p, q in cases:
    a = mp.nint_distance(mpq(p, q)); b = mp.nint_distance(mpf(p) / q)
    flag = a != b; bad += flag
    print("x = %d/%d   as mpq: %r   as mpf: %r %s" % (p, q, a, b, "<-- differ" if flag else ""))
print("expected: identical (n, d) for the same exactly representable value;")
print("mpq(-5,2) -> n=-2 (ties towards +inf) but mpf(-2.5) -> n=-3 (ties away from zero);")
print("mpq(3,8): d=-2 although |x-n| = 0.375 > 2^-2, mpf gives the upper bound d=-1")
sys.exit(1 if bad else 0)
