# iv context: isinf(-inf) is False, isinf of a half-infinite interval is False, isnan(nan) is False
import sys, os; sys.path.insert(0, os.getcwd())
import signal; signal.alarm(20)
from mpmath import iv, mp
bad = 0
for label, got, exp in [('iv.isinf(iv.mpf("-inf"))', iv.isinf(iv.mpf('-inf')), True),
                        ('iv.isinf(-iv.inf)', iv.isinf(-iv.inf), True),
                        ('iv.isinf(iv.inf)', iv.isinf(iv.inf), True),
                        ('iv.isnan(iv.mpf("nan"))', iv.isnan(iv.mpf('nan')), True),
                        ('iv.isnan(iv.nan)', iv.isnan(iv.nan), True)]:
    v = got is not exp
    print('%s = %r   expected %r (mp.isinf(-inf) = %r, mp.isnan(nan) = %r)   %s' % (label, got, exp, mp.isinf(-mp.inf), mp.isnan(mp.nan), 'VIOLATION' if v else 'ok'))
    bad += v
sys.exit(1 if bad else 0)
