import sys, os; sys.path.insert(0, os.getcwd())
# fp context: mag of infinities / nan is 0, huge ints overflow, isnpint(-inf) raises, isfinite missing
from mpmath import mp, fp
INF = float('inf'); NAN = float('nan')
def call(f, *a):
    try: return f(*a)
    except Exception as ex: return 'EXC:' + type(ex).__name__
rows = [
 ("fp.mag(inf)",            call(fp.mag, INF),            mp.mag(INF)),
 ("fp.mag(-inf)",           call(fp.mag, -INF),           mp.mag(-INF)),
 ("fp.mag(nan)",            call(fp.mag, NAN),            mp.mag(NAN)),
 ("fp.mag(complex(inf,0))", call(fp.mag, complex(INF,0)), mp.mag(complex(INF,0))),
 ("fp.mag(2**2000)",        call(fp.mag, 2**2000),        mp.mag(2**2000)),
 ("fp.isnpint(-inf)",       call(fp.isnpint, -INF),       mp.isnpint(-INF)),
 ("fp.nint_distance(3+nanj)", call(fp.nint_distance, complex(3,NAN)), call(mp.nint_distance, complex(3,NAN))),
 ("fp.isfinite(1.0)",       call(lambda: fp.isfinite(1.0)), mp.isfinite(1.0)),
]
bad = 0
for name, obs, exp in rows:
    ok = str(obs) == str(exp)
    bad += not ok
    print("%-26s observed %-22r expected (mp context) %r %s" % (name, obs, exp, "" if ok else " <-- MISMATCH"))
sys.exit(1 if bad else 0)
