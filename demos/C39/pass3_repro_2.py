# fp.isnpint(-inf) raises OverflowError instead of returning False (mp.isnpint(-inf) is False);
# fp.rf, fp.binomial, fp.gammaprod, fp.psi of -inf inherit the exception (mp returns nan)
import sys, os; sys.path.insert(0, os.getcwd())
import signal; signal.alarm(20)
from mpmath import mp, fp
NINF = float('-inf')
bad = 0
def run(f, *a):
    try: return repr(f(*a))
    except Exception as e: return 'RAISES %s: %s' % (type(e).__name__, e)
for name, args in [('isnpint', (NINF,)), ('isnpint', (complex(NINF, 0),)), ('rf', (NINF, 2)),
                   ('binomial', (NINF, 2)), ('psi', (0, NINF))]:
    got, ref = run(getattr(fp, name), *args), run(getattr(mp, name), *args)
    v = got.startswith('RAISES') and not ref.startswith('RAISES')
    print('fp.%s%r -> %s   mp.%s -> %s   %s' % (name, args, got, name, ref, 'VIOLATION' if v else 'ok'))
    bad += v
print('expected: isnpint(-inf) is False (-inf is not an integer), no exception')
sys.exit(1 if bad else 0)
