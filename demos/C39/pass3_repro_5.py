# isnpint: non-numbers that are falsy are "nonpositive integers"; and a non-bool (0) is returned
import sys, os; sys.path.insert(0, os.getcwd())
import signal; signal.alarm(20)
from mpmath import mp, mpf, mpc, inf, nan
bad = 0
for x in [None, '', [], (), {}]:
    try: r = mp.isnpint(x); v = True
    except TypeError as e: r = 'TypeError'; v = False
    try: ref = mp.isint(x)
    except TypeError as e: ref = 'TypeError'
    print('isnpint(%r) = %r   isint(%r) -> %s   expected TypeError   %s' % (x, r, x, ref, 'VIOLATION' if v else 'ok'))
    bad += v
for x in [mpf(3), inf, nan, mpc(3, 0), float('nan'), mpf(10)**400]:
    r = mp.isnpint(x)
    v = r is not False
    print('isnpint(%r) = %r (%s)   expected False   %s' % (x, r, type(r).__name__, 'VIOLATION' if v else 'ok'))
    bad += v
sys.exit(1 if bad else 0)
