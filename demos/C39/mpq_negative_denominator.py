import sys, os; sys.path.insert(0, os.getcwd())
from mpmath import mp
mpq = mp.mpq
# mpq.__pow__ with a negative base and a negative exponent yields a NEGATIVE denominator;
# isnpint / nint_distance assume q > 0.
x = mpq(-1, 2) ** -1        # value -2
y = mpq(-2, 3) ** -3        # value -27/8 = -3.375
print("mpq(-1,2)**-1 ._mpq_ =", x._mpq_, "  mpq(-2,3)**-3 ._mpq_ =", y._mpq_)
r1 = mp.isnpint(x); r2 = mp.nint_distance(x); r3 = mp.nint_distance(y)
print("isnpint(-2 as mpq)        =", r1, "  expected True")
print("nint_distance(-2 as mpq)  =", r2, "  expected (-2, -inf)")
print("nint_distance(-27/8)      =", r3, "  expected (-3, -1)  [|x-n| = 3/8]")
bad = (not r1) or r2 != (-2, mp.ninf) or r3[0] != -3
sys.exit(1 if bad else 0)
