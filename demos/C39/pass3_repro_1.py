# fp.mag: 0 for +-inf and nan (mp.mag: +inf, +inf, nan), OverflowError for a finite complex / a big int
import sys, os; sys.path.insert(0, os.getcwd())
import signal; signal.alarm(20)
from mpmath import mp, fp
INF = float('inf'); NAN = float('nan')
bad = 0
def run(f, x):
    try: return f(x)
    except Exception as e: return '%s: %s' % (type(e).__name__, e)
for x, expected in [(INF, '+inf'), (-INF, '+inf'), (complex(INF, 0), '+inf'), (complex(3, -INF), '+inf'),
                    (NAN, 'nan'), (1.5e308+1.5e308j, '1025 (|x| = 2.12e308 <= 2**1025)'),
                    (10**400, '1329')]:
    got, ref = run(fp.mag, x), run(mp.mag, x)
    ok = (str(got) == str(ref)) or (got == ref) or (str(got) in ('inf',) and str(ref) == '+inf')
    print('fp.mag(%r) = %s   mp.mag = %s   expected %s   %s' % (x if x != 10**400 else '10**400', got, ref, expected, 'ok' if ok else 'VIOLATION'))
    bad += not ok
sys.exit(1 if bad else 0)
