import sys, os; sys.path.insert(0, os.getcwd())
from mpmath import mp, fp
# fp context (mpmath/ctx_fp.py, outside the anchored files): mag = math.frexp(abs(z))[1]
bad = 0
for z, exp in [(float('inf'), 'inf'), (float('-inf'), 'inf'), (float('nan'), 'nan'),
               (complex(float('inf'), 1), 'inf'), (complex(1.5e308, 1.5e308), '1025')]:
    try: m = fp.mag(z)
    except Exception as e: m = "%s: %s" % (type(e).__name__, e)
    ok = str(m) == exp
    bad += not ok
    print("fp.mag(%r) = %r   expected %s   (mp.mag gives %r)" % (z, m, exp, mp.mag(z)))
sys.exit(1 if bad else 0)
