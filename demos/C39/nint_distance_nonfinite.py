import sys, os; sys.path.insert(0, os.getcwd())
from mpmath import mp, mpf, mpc, inf, nan
# nint_distance on non-finite input: the code has a "requires a finite number" branch,
# but the `mag < 0` test fires first on the sentinel exponents of inf/nan.
bad = 0
for x in [inf, -inf, nan, mpc(inf, 0), mpc(-inf, 1), mpc(nan, 1), float('inf')]:
    try:
        r = mp.nint_distance(x)
        print("nint_distance(%r) = %r   expected: ValueError('requires a finite number')" % (x, r))
        bad += 1
    except ValueError as e:
        print("nint_distance(%r) raises ValueError (ok)" % (x,))
# reference: the imaginary part IS checked
try:
    mp.nint_distance(mpc(1, inf)); print("mpc(1,inf): no error")
except ValueError as e:
    print("nint_distance(mpc(1,inf)) raises ValueError: %s (the intended behaviour)" % e)
sys.exit(1 if bad else 0)
