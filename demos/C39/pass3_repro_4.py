# ldexp(x, n) with a non-int n (2.0, mpf(2), 0.5) silently returns a corrupt mpf (exponent field
# float / mpf) instead of raising or computing x*2**n; the object fails later in arithmetic / repr
import sys, os; sys.path.insert(0, os.getcwd())
import signal; signal.alarm(20)
from mpmath import mp, mpf
bad = 0
for n in [2.0, mpf(2), 0.5]:
    try:
        y = mp.ldexp(3, n)
    except TypeError as e:
        print('ldexp(3, %r) raises TypeError (ok): %s' % (n, e)); continue
    raw = y._mpf_
    try: s = 'y + 0 = %r' % (y + 0)
    except Exception as e: s = 'y + 0 RAISES %s: %s' % (type(e).__name__, e)
    v = type(raw[2]) is not int
    print('ldexp(3, %r)._mpf_ = %r; y == 12: %r; %s   expected TypeError at the call, or the value 3*2**n   %s'
          % (n, raw, y == 12, s, 'VIOLATION' if v else 'ok'))
    bad += v
sys.exit(1 if bad else 0)
