import sys, os; sys.path.insert(0, os.getcwd())
from mpmath import mp, mpf
mpq = mp.mpq
# Exact half-integers: the mpf branch rounds the tie away from zero and reports d = 0,
# the mpq branch rounds the tie towards +inf and reports d = -1 (|x-n| = 1/2 in both cases).
bad = 0
for k in [-5, -3, -1, 1, 3, 5]:
    a = mp.nint_distance(mpf(k) / 2); b = mp.nint_distance(mpq(k, 2))
    flag = "" if a == b else "   <-- differ"
    bad += a != b
    print("x = %4s/2: mpf -> %-9r mpq -> %-9r nint(x) = %s%s" % (k, a, b, mp.nint(mpf(k) / 2), flag))
print("expected: same (n, d) for the same real number regardless of its type")
sys.exit(1 if bad else 0)
