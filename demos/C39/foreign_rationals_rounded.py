import sys, os; sys.path.insert(0, os.getcwd())
from fractions import Fraction
from mpmath import mp
# A rational half-integer given as fractions.Fraction is rounded to mp.prec bits
# before classification (mp.mpq with the same value is handled exactly).
mp.prec = 53
h = Fraction(2**53 + 1, 2)          # 4503599627370496.5, an exact half-integer
q = mp.mpq(2**53 + 1, 2)
obs = (mp.isint(h), bool(mp.isnpint(-h)), mp.nint_distance(h))
ref = (mp.isint(q), bool(mp.isnpint(-q)), mp.nint_distance(q))
print("x = Fraction(2**53+1, 2)")
print("isint(x), isnpint(-x), nint_distance(x) =", obs)
print("same value as mp.mpq (expected)          =", ref)
mp.prec = 5
print("prec=5: isint(Fraction(1023,2)) =", mp.isint(Fraction(1023, 2)), " expected False")
bad = obs[0] is not False or obs[1] is not False or obs[2][1] == mp.ninf
sys.exit(1 if bad else 0)
