import sys, os; sys.path.insert(0, os.getcwd())
# isint / isnpint / nint_distance / ldexp / frexp round an exact rational (Fraction, Decimal) to mp.prec first
from fractions import Fraction
from decimal import Decimal
from mpmath import mp
from mpmath.rational import mpq
mp.prec = 53
x = Fraction(2**60 + 1, 2)            # = 2^59 + 1/2, not an integer
obs = [mp.isint(x), mp.isint(Decimal(2**60 + 1) / 2), bool(mp.isnpint(-x)), mp.nint_distance(x), int(mp.ldexp(x, 1))]
ref = [mp.isint(mpq(2**60 + 1, 2)), False, bool(mp.isnpint(-mpq(2**60 + 1, 2))), mp.nint_distance(mpq(2**60 + 1, 2)), 2**60 + 1]
print("x =", x)
print("observed  isint(Fraction), isint(Decimal), isnpint(-x), nint_distance(x), ldexp(x,1):", obs)
print("expected (exact value / same value as mpq):                                    ", ref)
bad = obs[0] is not False or obs[1] is not False or obs[2] is not False \
      or obs[3][1] == mp.ninf or abs(Fraction(obs[3][0]) - x) > Fraction(1, 2) or obs[4] != 2**60 + 1
# frequency: non-integer rationals k + 1/q with k >= 2^53
import random; random.seed(1); n = 0; M = 1000
for i in range(M):
    f = random.randrange(2**53, 2**80) + Fraction(1, random.randrange(2, 1000))
    n += mp.isint(f) is True
print("isint(Fraction) wrongly True for %d of %d non-integer rationals above 2^53" % (n, M))
sys.exit(1 if bad else 0)
