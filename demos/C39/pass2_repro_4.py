import sys, os; sys.path.insert(0, os.getcwd())
# isnpint: returns the int 0 instead of False; accepts None / '' / [] as "nonpositive integer"
from mpmath import mp, mpf, mpc
r1 = mp.isnpint(mpf(3)); r2 = mp.isnpint(2.5); r3 = mp.isnpint(mpc(3, 0))
print("isnpint(mpf(3)) =", repr(r1), " isnpint(2.5) =", repr(r2), " isnpint(mpc(3,0)) =", repr(r3), "  expected False (bool) each, as isnpint(3) =", repr(mp.isnpint(3)))
out = []
for v in (None, '', []):
    try: out.append(mp.isnpint(v))
    except TypeError: out.append('TypeError')
print("isnpint(None), isnpint(''), isnpint([]) =", out, "  expected TypeError (as isint(None) raises)")
bad = any(type(r) is not bool for r in (r1, r2, r3)) or any(o is True for o in out)
sys.exit(1 if bad else 0)
