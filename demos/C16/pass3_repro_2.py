import sys, os; sys.path.insert(0, os.getcwd())
# C16 violation 2: `q in X` with q a Fraction / mpq tests the outward-rounded
# enclosure of q, so a rational that lies inside X is reported as not inside
from fractions import Fraction
from mpmath import iv, mp, mpf, fdiv
from mpmath.rational import mpq
from mpmath.libmp import to_rational
bad = 0
def check(label, got, exp):
    global bad
    print('%-52s observed %-5r expected %r' % (label, got, exp)); bad += got is not exp
iv.prec = 53; mp.prec = 100
lo = fdiv(1, 3, rounding='f')                      # 100-bit number just below 1/3
X = iv.mpf([lo, 1])
a, b = [Fraction(*to_rational(e)) for e in X._mpi_]
q = Fraction(1, 3)
print('X = [%r, %r] (exact end points), q = %r' % (a, b, q))
check('Fraction(1,3) in X', q in X, a <= q <= b)
check('mpq(1,3) in X', mpq(1, 3) in X, a <= q <= b)
iv.prec = 10; mp.prec = 53
Y = iv.mpf([mpf(0.1), mpf(0.3)])
check('prec 10: 0.1 in [0.1, 0.3] (float, control)', 0.1 in Y, True)
check('prec 10: Fraction(0.1) in [0.1, 0.3]', Fraction(0.1) in Y, True)
sys.exit(1 if bad else 0)
