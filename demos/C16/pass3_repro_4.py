import sys, os; sys.path.insert(0, os.getcwd())
# C16 (scope DEBATABLE: complex interval class): ivmpc.__eq__/__ne__/__contains__
# still round an int / float operand outward to iv.prec before comparing,
# the defect that was repaired for real intervals (ivmpf._operand)
from mpmath import iv, mp, mpf
bad = 0
def check(label, got, exp):
    global bad
    print('%-56s observed %-5r expected %r' % (label, got, exp)); bad += got is not exp
mp.prec = 53; iv.prec = 10
R = iv.mpf(mpf(0.1)); Z = iv.mpc(mpf(0.1), 0)      # the exact point 0.1, real and complex
check('real    {0.1} == 0.1 (control)', R == 0.1, True)
check('complex {0.1}+0j == 0.1', Z == 0.1, True)
check('complex {0.1}+0j != 0.1', Z != 0.1, False)
check('0.1 in complex {0.1}+0j', 0.1 in Z, True)
iv.prec = 53
W = iv.mpc([2**53, 2**53 + 2], 0)
check('real    [2^53, 2^53+2] == 2^53+1 (control)', iv.mpf([2**53, 2**53 + 2]) == 2**53 + 1, False)
check('complex [2^53, 2^53+2]+0j == 2^53+1', W == 2**53 + 1, False)
sys.exit(1 if bad else 0)
