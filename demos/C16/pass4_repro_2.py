import sys, os; sys.path.insert(0, os.getcwd())
# C16 violation 2: == / != with an mp constant depend on the operand order;
# constant on the left: its 53-bit rounding is compared with the point interval
from mpmath import iv, mp, mpf
mp.prec = 53; iv.prec = 53
p = +mp.pi                      # 53-bit rounding of pi, p < pi
X = iv.mpf(p)                   # the point interval [p, p]
bad = 0
for label, got, exp in [
    ("mp.pi == [p,p]", mp.pi == X, False),      # pi is not p
    ("mp.pi != [p,p]", mp.pi != X, True),
    ("[p,p] == mp.pi (control)", X == mp.pi, False),
    ("[p,p] != mp.pi (control)", X != mp.pi, True),
    ("iv.pi == [p,p] (control)", iv.pi == X, False)]:
    print("%-28s observed %-5r expected %r" % (label, got, exp)); bad += got is not exp
# completeness side: the enclosure of the constant is taken at iv.prec only
iv.prec = 20
Y = iv.mpf([p, p + mpf(2)**-51])               # p < pi < p + 2^-51
for label, got, exp in [("iv.prec=20: mp.pi in [p, p+2^-51]", mp.pi in Y, True),
                        ("iv.prec=20: [p,p] < mp.pi", X < mp.pi, True)]:
    print("%-36s observed %-5r expected %r" % (label, got, exp)); bad += got is not exp
sys.exit(1 if bad else 0)
