import sys, os; sys.path.insert(0, os.getcwd())
# ordering against a number: None although the relation holds (or fails) for every pair
from mpmath import iv
iv.prec = 53
x = iv.mpf(2**53)                      # exact point interval [2^53, 2^53]
n = 2**53 + 1
res = [("x <  n", x < n, True), ("x <= n", x <= n, True), ("x >  n", x > n, False),
       ("x >= n", x >= n, False), ("n >  x", n > x, True), ("n <= x", n <= x, False)]
bad = 0
print("x = [2^53, 2^53], n = 2^53+1 (every member of x is < n)")
for name, got, exp in res:
    print("%s: observed %s expected %s" % (name, got, exp))
    bad += got is not exp
sys.exit(1 if bad else 0)
