import sys, os; sys.path.insert(0, os.getcwd())
from mpmath import iv
from mpmath.rational import mpq
# <,<=,>,>= on an interval must return True/False/None.  Against mpmath's own
# rational type they return the class NotImplementedError (truthy), even when
# the relation is false for every pair of points.
bad = 0
for desc, f, want in [("iv.mpf(5) < mpq(3,2)", lambda: iv.mpf(5) < mpq(3, 2), False),
                      ("iv.mpf([4,5]) <= mpq(3,2)", lambda: iv.mpf([4, 5]) <= mpq(3, 2), False),
                      ("mpq(3,2) > iv.mpf(5)", lambda: mpq(3, 2) > iv.mpf(5), False),
                      ("iv.mpf(1) > mpq(3,2)", lambda: iv.mpf(1) > mpq(3, 2), False)]:
    got = f()
    print("%-28s observed %r (bool: %r), expected %r" % (desc, got, bool(got), want))
    bad += (got is not want)
print("iv.mpf(1) == mpq(1,1) -> observed %r (expected True; iv.mpf(1) == 1 -> %r)" % (iv.mpf(1) == mpq(1, 1), iv.mpf(1) == 1))
sys.exit(1 if bad else 0)
