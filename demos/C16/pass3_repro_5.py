import sys, os; sys.path.insert(0, os.getcwd())
# C16 (DEBATABLE): == / != with a Python complex number whose imaginary part is 0
# never look at the end points: the answer is always False / True, while the same
# number as mpc, iv.mpc, float, or through `in`, is compared by value
from mpmath import iv, mpc
bad = 0
def check(label, got, exp):
    global bad
    print('%-40s observed %-5r expected %r' % (label, got, exp)); bad += got is not exp
X = iv.mpf(3)
check('iv.mpf(3) == 3.0 (control)', X == 3.0, True)
check('iv.mpf(3) == mpc(3, 0) (control)', X == mpc(3, 0), True)
check('(3+0j) in iv.mpf(3) (control)', (3+0j) in X, True)
check('iv.mpf(3) == 3+0j', X == 3+0j, True)
check('3+0j == iv.mpf(3)', 3+0j == X, True)
check('iv.mpf(3) != 3+0j', X != 3+0j, False)
sys.exit(1 if bad else 0)
