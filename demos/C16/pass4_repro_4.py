import sys, os; sys.path.insert(0, os.getcwd())
# C16 (DEBATABLE): a decimal literal given as a string is an exact number, but it is
# compared as its enclosure at iv.prec (the defect repaired for int/float/Fraction)
from mpmath import iv, mp, mpf
mp.prec = 53; iv.prec = 10
X = iv.mpf(mpf(1025))                       # exact point 1025 (11 bits)
D = iv.mpf(mpf(0.1))                        # exact point: the double 0.1 > 1/10
bad = 0
for label, got, exp in [
    ("'1025' in {1025}", '1025' in X, True),
    ("{1025} == '1025'", X == '1025', True),
    ("{1025} <= '1025'", X <= '1025', True),
    ("{0.1d} > '0.1'", D > '0.1', True),
    ("control: 1025 in {1025}", 1025 in X, True),
    ("control: {1025} == 1025", X == 1025, True)]:
    print("%-28s observed %-5r expected %r" % (label, got, exp)); bad += got is not exp
sys.exit(1 if bad else 0)
