import sys, os; sys.path.insert(0, os.getcwd())
# == / != between a point interval and the SAME number given as int / float
from mpmath import iv, mpf
iv.prec = 30
x = iv.mpf(mpf(0.1))       # point interval, endpoints exactly the double 0.1 (kept unrounded)
a, b = x._mpi_
assert a == b == mpf(0.1)._mpf_
eq, ne = (x == 0.1), (x != 0.1)
print("iv.prec=30, x = [0.1, 0.1] (double 0.1, exact), number = 0.1 (same double)")
print("observed  x == 0.1:", eq, "  x != 0.1:", ne, "  (x == mpf(0.1):", x == mpf(0.1), ")")
print("expected  x == 0.1: True   x != 0.1: False")
iv.prec = 53
y = iv.mpf(mpf(2**60 + 1, prec=100))
eq2 = (y == 2**60 + 1)
print("iv.prec=53, y = [2^60+1, 2^60+1] exact:", y._mpi_[0] == y._mpi_[1], " observed y == 2**60+1:", eq2, " expected True")
sys.exit(1 if (eq is not True or ne is not False or eq2 is not True) else 0)
