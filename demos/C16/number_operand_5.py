import sys, os; sys.path.insert(0, os.getcwd())
# number == interval with the number on the LEFT raises instead of answering
from mpmath import iv, mpf, mpc
x = iv.mpf([1, 2])
bad = 0
for name, f, exp in [("mpf(1) == mpi(1,2)", lambda: mpf(1) == x, False),
                     ("mpf(1) != mpi(1,2)", lambda: mpf(1) != x, True),
                     ("mpc(1,0) == mpi(1,2)", lambda: mpc(1, 0) == x, False)]:
    try: got = f()
    except Exception as e: got = "raises %s: %s" % (type(e).__name__, e)
    print("%s: observed %s expected %s" % (name, got, exp))
    bad += got is not exp
print("for contrast: mpi(1,2) == mpf(1):", x == mpf(1), "  mpf(1) < mpi(2,3):", mpf(1) < iv.mpf([2, 3]), "  1 == mpi(1,2):", 1 == x)
sys.exit(1 if bad else 0)
