import sys, os; sys.path.insert(0, os.getcwd())
# C16 (scope: complex interval class): ivmpc ==, != and `in` still round a Fraction / mpq
# outward to iv.prec; the real-interval methods compare the rational exactly
from fractions import Fraction
from mpmath import iv, mp, mpf
from mpmath.rational import mpq
mp.prec = 100; iv.prec = 53
n = 2**60 + 1
Z = iv.mpc(mpf(n), 0)                       # the exact point n
W = iv.mpc([mpf(n) - 1, mpf(n) + 255], 0)   # = the 53-bit rounding cell of n+7
bad = 0
for label, got, exp in [
    ("{n} == Fraction(n)", Z == Fraction(n), True),
    ("{n} != mpq(n,1)", Z != mpq(n, 1), False),
    ("Fraction(n) in {n}", Fraction(n) in Z, True),
    ("mpq(n,1) in {n}", mpq(n, 1) in Z, True),
    ("[n-1,n+255] == Fraction(n+7)", W == Fraction(n + 7), False),
    ("control real: {n} == Fraction(n)", Z.real == Fraction(n), True),
    ("control real: [n-1,n+255] == Fraction(n+7)", W.real == Fraction(n + 7), False),
    ("control int: {n} == n", Z == n, True)]:
    print("%-44s observed %-5r expected %r" % (label, got, exp)); bad += got is not exp
sys.exit(1 if bad else 0)
