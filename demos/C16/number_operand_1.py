import sys, os; sys.path.insert(0, os.getcwd())
# == / != between a non-degenerate interval and a number that is not an endpoint
from mpmath import iv
iv.prec = 53
x = iv.mpf([2**53, 2**53 + 2])          # endpoints exactly 2^53 and 2^53+2
n = 2**53 + 1                            # a single point strictly inside x
a, b = x._mpi_
print("interval endpoints:", int(iv.mpf(x.a)), int(iv.mpf(x.b)), " number:", n)
eq, ne = (x == n), (x != n)
print("observed  x == n:", eq, "  x != n:", ne)
print("expected  x == n: False   x != n: True  (x is not the point interval [n, n])")
# for contrast: the mathematically symmetric cases are answered correctly
print("x == 2**53:", x == 2**53, "  x == 2**53+2:", x == 2**53 + 2)
sys.exit(1 if (eq is True or ne is False) else 0)
