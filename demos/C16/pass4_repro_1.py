import sys, os; sys.path.insert(0, os.getcwd())
# C16 violation 1: mp.eps (value 2^(1-mp.prec)) as comparison operand is re-evaluated at iv.prec
from mpmath import iv, mp, mpf
mp.prec = 53; iv.prec = 100
eps = +mp.eps                                   # the number 2^-52
X = iv.mpf([mpf(2)**-60, 1]); P = iv.mpf(mpf(2)**-52)
print("mp.prec=53 iv.prec=100  mp.eps =", eps, " X = [2^-60, 1]  P = [2^-52, 2^-52]")
bad = 0
for label, got, exp in [
    ("mp.eps in X",  mp.eps in X, True),        # 2^-60 <= 2^-52 <= 1
    ("X > mp.eps",   X > mp.eps,  None),        # 2^-60 < 2^-52 < 1: undecided
    ("mp.eps < X",   mp.eps < X,  None),
    ("P <= mp.eps",  P <= mp.eps, True),
    ("P == mp.eps",  P == mp.eps, True),
    ("P != mp.eps",  P != mp.eps, False),
    ("control: +mp.eps in X", eps in X, True),
    ("control: X > +mp.eps",  X > eps, None)]:
    print("%-24s observed %-5r expected %r" % (label, got, exp)); bad += got is not exp
sys.exit(1 if bad else 0)
