import sys, os; sys.path.insert(0, os.getcwd())
# C16 violation 3: <, <=, >, >= with a Fraction / mpq give None although the
# relation holds (or fails) for every member of the interval
from fractions import Fraction
from mpmath import iv, mp
from mpmath.rational import mpq
bad = 0
def check(label, got, exp):
    global bad
    print('%-50s observed %-5r expected %r' % (label, got, exp)); bad += got is not exp
iv.prec = 53; mp.prec = 53
P = iv.mpf(0.1)                                    # the point 0.1 (double) > 1/10
assert Fraction(0.1) > Fraction(1, 10)
check('{0.1} >  Fraction(1, 10)', P > Fraction(1, 10), True)
check('{0.1} <= Fraction(1, 10)', P <= Fraction(1, 10), False)
check('mpq(1, 10) < {0.1}  (reflected)', mpq(1, 10) < P, True)
Q = iv.mpf(2**53)
check('{2^53} < 2^53+1 (int, control)', Q < 2**53 + 1, True)
check('{2^53} < Fraction(2^53+1)', Q < Fraction(2**53 + 1), True)
check('[0, 2^53] >= mpq(2^53+1, 1)', iv.mpf([0, 2**53]) >= mpq(2**53 + 1, 1), False)
sys.exit(1 if bad else 0)
