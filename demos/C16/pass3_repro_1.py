import sys, os; sys.path.insert(0, os.getcwd())
# C16 violation 1: == / != with a Fraction or mpq compare an enclosure of the
# rational (rounded outward to iv.prec), not the number -> wrong definite answers
from fractions import Fraction
from mpmath import iv, mp, mpf
from mpmath.rational import mpq
bad = 0
def check(label, got, exp):
    global bad
    print('%-58s observed %-5r expected %r' % (label, got, exp)); bad += got is not exp
iv.prec = 53; mp.prec = 53
n = 2**53 + 1
X = iv.mpf([2**53, 2**53 + 2])                     # a genuine interval of width 2
check('[2^53, 2^53+2] == 2^53+1 (int, control)', X == n, False)
check('[2^53, 2^53+2] == Fraction(2^53+1)', X == Fraction(n), False)
check('[2^53, 2^53+2] != mpq(2^53+1, 1)', X != mpq(n, 1), True)
T = iv.mpf(1) / 3                                  # [fl(1/3), ce(1/3)], width 1 ulp
check('iv.mpf(1)/3 == Fraction(1, 3)', T == Fraction(1, 3), False)
check('Fraction(1, 3) == iv.mpf(1)/3 (reflected)', Fraction(1, 3) == T, False)
iv.prec = 10
P = iv.mpf(mpf(0.1))                               # exact point interval {0.1 (double)}
check('prec 10: {0.1} == 0.1 (float, control)', P == 0.1, True)
check('prec 10: {0.1} == Fraction(0.1)', P == Fraction(0.1), True)
check('prec 10: {0.1} != Fraction(0.1)', P != Fraction(0.1), False)
sys.exit(1 if bad else 0)
