import sys, os; sys.path.insert(0, os.getcwd())
# `in`: a number that lies inside the interval is reported as not contained
from mpmath import iv, mpf
from fractions import Fraction
iv.prec = 30
x = iv.mpf([mpf(0.1), mpf(0.3)])     # endpoints are the exact doubles 0.1 and 0.3
lo, hi = Fraction(0.1), Fraction(0.3)
bad = 0
for num in (0.1, 0.3):               # the endpoints themselves, as Python floats
    got = num in x
    exp = lo <= Fraction(num) <= hi
    print("iv.prec=30  %r in [0.1, 0.3]: observed %s expected %s   (mpf(%r) in x: %s)" % (num, got, exp, num, mpf(num) in x))
    bad += got is not exp
iv.prec = 53
z = iv.mpf([0, mpf(2**60 + 1, prec=100)])   # upper endpoint exactly 2^60+1
got = (2**60 + 1) in z
print("iv.prec=53  (2**60+1) in [0, 2^60+1]: observed", got, "expected True")
bad += got is not True
sys.exit(1 if bad else 0)
