import sys, os; sys.path.insert(0, os.getcwd())
# C16 (DEBATABLE, invalid input): string operands bypass convert()'s end point checks
# (NaN -> [-inf, inf], a <= b), so the predicates contradict themselves
from mpmath import iv, mp
inf = float('inf'); nan = float('nan')
R = iv.mpf([-inf, inf]); T = iv.mpf(3)
bad = 0
for label, got, exp in [
    ("3 < '[5,1]'", T < '[5,1]', "TypeError/None"),
    ("3 > '[5,1]'", T > '[5,1]', "TypeError/None"),
    ("X < X for X = iv.mpf('[2,1]')", iv.mpf('[2,1]') < iv.mpf('[2,1]'), "error at construction (iv.mpf([2,1]) raises)"),
    ("'nan' in [-inf,inf]", 'nan' in R, True),
    ("float nan in [-inf,inf] (control)", nan in R, True),
    ("0 in iv.mpf('[nan,1]')", 0 in iv.mpf('[nan,1]'), True),
    ("0 in iv.mpf([nan,1]) (control)", 0 in iv.mpf([nan, 1]), True),
    ("iv.nan == float nan", iv.nan == nan, True)]:
    print("%-36s observed %-5r expected %r" % (label, got, exp))
    bad += (got is not exp) if isinstance(exp, bool) else (got is True)
sys.exit(1 if bad else 0)
