import sys, os; sys.path.insert(0, os.getcwd())
from mpmath import iv, mp
# C16 "in": True exactly when the left operand lies inside the right interval.
# A non-real complex number does not lie inside a real interval.
iv.prec = 53
x = iv.mpf([-1, 1])
cases = [5j, 1+5j, mp.mpc(0, 5), iv.mpc(0, [-5, 5])]
bad = 0
for z in cases:
    got = z in x
    print("%r in %r -> observed %r, expected False" % (z, x, got))
    bad += (got is not False)
# sanity: the complex container gets it right
print("5j in iv.mpc([-1,1],0) ->", 5j in iv.mpc([-1, 1], 0), "(expected False)")
sys.exit(1 if bad else 0)
