# C08 violation 1: to_digits_exp truncates the mantissa to ~3.32*(n+3)+10 bits before
# generating digits; values with longer mantissas just above a rounding boundary round down.
import sys, os; sys.path.insert(0, os.getcwd())
from fractions import Fraction
from mpmath import mp, mpf, nstr
bad = 0
# (a) default precision, 53-bit mantissa, n = 1
x = mpf('0.45')                       # = 0.450000000000000011102230246251565404... > 0.45
exact = Fraction(int(x._mpf_[1])) * Fraction(2)**x._mpf_[2]
assert exact > Fraction(45, 100)      # strictly above the tie point, so nearest 1-digit is 0.5
got = nstr(x, 1)
print("nstr(mpf('0.45'), 1): exact x = %s" % nstr(x, 25), "observed", got, "expected 0.5")
bad += got != '0.5'
# (b) str() at default precision of a value carrying more bits than the precision
y = mpf('1.000000000000005', prec=200, rounding='c')   # smallest 200-bit value >= 1.000000000000005
exact = Fraction(int(y._mpf_[1])) * Fraction(2)**y._mpf_[2]
assert exact > Fraction(1000000000000005, 10**15)
got = str(y)
print("str(y), y = 200-bit ceil of 1.000000000000005 (bc=%d): observed" % y._mpf_[3], got, "expected 1.00000000000001")
bad += got != '1.00000000000001'
# (c) n = 5
z = mpf('1.23455')                    # = 1.2345500000000000362... > 1.23455
got = nstr(z, 5)
print("nstr(mpf('1.23455'), 5): x =", nstr(z, 22), "observed", got, "expected 1.2346")
bad += got != '1.2346'
sys.exit(1 if bad else 0)
