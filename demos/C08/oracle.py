import sys, os; sys.path.insert(0, os.getcwd())
sys.set_int_max_str_digits(0)
from fractions import Fraction
from decimal import Decimal
import mpmath
from mpmath import libmp
from mpmath.libmp import to_str, from_str, from_man_exp

def frac(s):
    sign, man, exp, bc = s
    v = Fraction(int(man)) * (Fraction(2)**exp)
    return -v if sign else v

def ilog10(x):
    """floor(log10(x)) for positive Fraction x, exact"""
    n, d = x.numerator, x.denominator
    e = int((n.bit_length() - d.bit_length())*0.30103)
    while Fraction(10)**e > x: e -= 1
    while Fraction(10)**(e+1) <= x: e += 1
    return e

def check_nearest(s, n, out):
    """return None if ok else message. s raw mpf finite nonzero."""
    x = frac(s)
    try:
        float(out); Decimal(out)
    except Exception as e:
        return "unparseable %r" % out
    v = Fraction(Decimal(out))
    ax = abs(x)
    E = ilog10(ax)
    u = Fraction(10)**(E-n+1)
    q = ax/u
    lo = q.numerator//q.denominator
    c1, c2 = lo*u, (lo+1)*u
    if x < 0: c1, c2 = -c1, -c2
    d1, d2 = abs(x-c1), abs(x-c2)
    if d1 < d2: ok = (v == c1)
    elif d2 < d1: ok = (v == c2)
    else: ok = v in (c1, c2)
    if not ok:
        exp = c1 if d1 < d2 else c2
        return "not nearest: got %s, expected value %s (dist got %.3g units, best %.3g units)" % (
            out, exp, float(abs(v-x)/u), float(min(d1,d2)/u))
    return None
