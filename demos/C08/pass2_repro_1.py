import sys, os; sys.path.insert(0, os.getcwd())
# str/repr/nstr of a finite mpf whose decimal exponent has more digits than the
# interpreter's int->str limit raises ValueError (to_str does str(exponent)),
# while from_str reads such exponents in pieces (str_to_int).
# Default: limit lowered to its minimum 640 (runs in 1 s).  FULL=1: interpreter
# default limit 4300, x = 2**(34*10**4299) (same error, takes about 33 s).
full = os.environ.get('FULL') == '1'
if not full:
    sys.set_int_max_str_digits(640)
from mpmath import mp, mpf, ldexp, nstr
E = 34*10**4299 if full else 4*10**640
x = ldexp(mpf(1), E)
print("input: x = ldexp(mpf(1), %s), finite: %s" % ("34*10**4299" if full else "4*10**640", mp.isfinite(x)))
bad = 0
for name, f in [("nstr(x,1)", lambda: nstr(x, 1)), ("str(x)", lambda: str(x)), ("repr(x)", lambda: repr(x))]:
    try:
        s = f()
        print(name, "->", s[:30], "... (ok)")
    except Exception as ex:
        bad = 1
        print(name, "observed:", repr(ex)[:110])
print("expected: a literal d.ddde+NNN... whose value is nearest to x (and eval(repr(x)) == x)")
# the parsing side copes with such an exponent:
y = mpf('1e+' + '1' + '0'*(4400 if full else 700))
print("mpf('1e+1000...0') parses fine:", mp.isfinite(y))
sys.exit(bad)
