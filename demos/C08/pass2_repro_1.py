# C08 violation 1: nstr of a short decimal at high working precision raises ValueError
import sys, os; sys.path.insert(0, os.getcwd())
from mpmath import mp, mpf, nstr
from fractions import Fraction
mp.dps = 5000
bad = 0
for lit, want in [('0.1', '0.1'), ('0.7', '0.7'), ('2.5e-7', '2.5e-7')]:
    x = mpf(lit)                      # 16613-bit mantissa, |x - lit| < 2^-16613
    man, exp = x.man, x.exp
    exact = Fraction(int(man)) * Fraction(2)**int(exp)
    assert abs(exact - Fraction(lit)) < Fraction(1, 10**4000)   # so the nearest 6-digit decimal is `want`
    try:
        got = nstr(x, 6)
    except Exception as e:
        got = 'raised %s: %s' % (type(e).__name__, str(e)[:70])
    print('mp.dps=5000  nstr(mpf(%r), 6): observed %s | expected %r' % (lit, got, want))
    if got != want: bad = 1
sys.exit(bad)
