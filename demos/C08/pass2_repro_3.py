# C08 violation 3: repr/str/nstr of a number beyond 2^+-3500 whose exact decimal expansion is shorter
# than the digit count never finishes (enclosure loop in to_digits_exp never closes); with Python's
# 4300-digit int->str limit the runaway loop ends in ValueError instead of hanging.
import sys, os, signal; sys.path.insert(0, os.getcwd())
from mpmath import mp, mpf, nstr
class Timeout(Exception): pass
def alarm(*a): raise Timeout('no result after 8 s')
signal.signal(signal.SIGALRM, alarm)
mp.dps = 1100                                   # prec = 3657 bits
bad = 0
for label, x, f in [('repr(mpf(2)**3600)', mpf(2)**3600, repr),          # 1084-digit integer, 1103 digits asked
                    ('str(3*mpf(2)**3600)', 3*mpf(2)**3600, str),
                    ('nstr(mpf(2)**-3600, 2600)', mpf(2)**-3600, lambda v: nstr(v, 2600))]:  # 2517 significant digits
    signal.alarm(8)
    try:
        got = f(x); ok = (eval(got) == x) if f is repr else (mpf(got) == x)
        got = got[:30] + '...'
    except Exception as e:
        got, ok = 'raised %s: %s' % (type(e).__name__, str(e)[:60]), False
    finally:
        signal.alarm(0)
    print('mp.dps=1100  %s: observed %s | expected the exact decimal expansion (round trip)' % (label, got))
    if not ok: bad = 1
sys.exit(bad)
