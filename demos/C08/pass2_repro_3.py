import sys, os; sys.path.insert(0, os.getcwd())
# str/nstr of an mpc with an infinite imaginary part glue the sign separator to
# the '+inf' literal of to_str: '- +inf' instead of '-inf' (and '+ +inf').
from mpmath import mp, mpc, inf, nstr, mpmathify
bad = 0
for z, want in [(mpc(1, -inf), '(1.0 - infj)'), (mpc(1, inf), '(1.0 + infj)')]:
    for s in (str(z), nstr(z, 5)):
        ok = '+ +' not in s and '- +' not in s
        print("observed %-16s expected e.g. %-14s %s" % (s, want, "ok" if ok else "VIOLATION"))
        try:
            mpmathify(s)
        except Exception as ex:
            print("   mpmathify(%r) fails: %r" % (s, ex))
        bad |= (not ok)
sys.exit(bad)
