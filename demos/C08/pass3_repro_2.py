import sys, os; sys.path.insert(0, os.getcwd())
# repr(x) raises (so eval(repr(x)) == x fails) at precisions whose repr digit count
# exceeds 4297 when x is beyond 2^+-3500 and has few decimal digits
from mpmath import mp, mpf, mpc
bad = 0
for prec in (14000, 14290, 20000):
    mp.prec = prec
    for label, x in (("mpf(2)**5000", mpf(2)**5000), ("mpf(3)*2**-6000", mpf(3)*mpf(2)**-6000),
                     ("mpc(1, 2**5000)", mpc(1, mpf(2)**5000))):
        try:
            ok = (eval(repr(x)) == x)
            res = "round trip " + str(ok)
        except Exception as e:
            ok = False
            res = "raised " + repr(e)[:90]
        print("prec=%d repr digits=%d x=%s: %s (expected: round trip True)" % (prec, mp._repr_digits, label, res))
        if not ok: bad += 1
sys.exit(1 if bad else 0)
