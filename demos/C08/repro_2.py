# C08 violation 2: for |exp+bc| > 3500 to_digits_exp divides by a rounded power of ten at
# only bitprec bits; the ~2^-bitprec relative error flips the rounding digit.
# Happens with str() at the DEFAULT precision for a plain 53-bit value.
import sys, os; sys.path.insert(0, os.getcwd())
sys.set_int_max_str_digits(0)
from mpmath import mp, mpf, ldexp, nstr
bad = 0
m = 4503599650409779                      # 53-bit mantissa
x = ldexp(mpf(m), 4000)
assert x._mpf_[1] == m and x._mpf_[2] == 4000
exact = str(m * 2**4000)                  # exact integer, 1220 digits
print("x = %d * 2**4000, exact digits: %s.%s...e+%d" % (m, exact[0], exact[1:30], len(exact)-1))
# digit 16.. are 4999998..., so the nearest 15-digit decimal ends in ...433
expected = exact[0] + '.' + exact[1:15] + 'e+%d' % (len(exact)-1)
assert exact[15] == '4'
got = str(x)
print("str(x) observed", got, "expected", expected)
bad += got != expected
# same mechanism with nstr, n = 1: largest 23-bit number below 8.5e1383 must print as 8.0e+1383
from mpmath.libmp import from_rational, to_str
s = from_rational(85 * 10**1382, 1, 23, 'f')
assert s[1] * 2**s[2] < 85 * 10**1382
got = to_str(s, 1)
print("to_str(floor_23bit(8.5e1383), 1): observed", got, "expected 8.0e+1383")
bad += got != '8.0e+1383'
sys.exit(1 if bad else 0)
