# C08 violation 3: nstr(mpc, n, **options): mpc_to_str formats the real part with
# to_str(re, dps) and drops strip_zeros/min_fixed/max_fixed/show_zero_exponent.
import sys, os; sys.path.insert(0, os.getcwd())
from mpmath import mpc, mpf, nstr
bad = 0
cases = [(mpc(1.5, 2.5), 5, dict(strip_zeros=False), '(1.5000 + 2.5000j)'),
         (mpc(123456789, 123456789), 3, dict(max_fixed=20), '(123000000.0 + 123000000.0j)'),
         (mpc(1e-8, 1e-8), 3, dict(min_fixed=-20), '(0.00000001 + 0.00000001j)'),
         (mpc(0, 0), 3, dict(show_zero_exponent=True), '(0.0e+0 + 0.0e+0j)')]
for z, n, kw, expected in cases:
    got = nstr(z, n, **kw)
    re_alone = nstr(z.real, n, **kw)
    print("nstr(%r, %d, %s): observed %s expected %s (real part alone prints as %s)" % (z, n, kw, got, expected, re_alone))
    bad += got != expected
sys.exit(1 if bad else 0)
