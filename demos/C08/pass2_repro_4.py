import sys, os; sys.path.insert(0, os.getcwd())
# 'decimal exponents of any size': the literal of a finite mpf with a decimal
# exponent beyond 10**18 cannot be parsed by Decimal().
from decimal import Decimal
from mpmath import mp, mpf, ldexp
x = ldexp(mpf(1), 10**25)
s = str(x)
print("x = 2**(10**25), str(x) =", s, " float ->", float(s))
try:
    print("Decimal ->", Decimal(s)); sys.exit(0)
except Exception as ex:
    print("Decimal(str(x)) observed:", repr(ex), " expected: a Decimal value"); sys.exit(1)
