import sys, os; sys.path.insert(0, os.getcwd())
# nstr/str raise ValueError for a value beyond 2^+-3500 that is exactly a decimal
# of at most n+3 significant digits when n+3 > 4300 (Python's int<->str digit limit)
from decimal import Decimal, getcontext
from mpmath import mp, mpf, nstr, factorial
getcontext().prec = 10000
bad = 0
def run(label, f, exact):
    global bad
    try:
        out = f()
        ok = Decimal(out) == exact
        print(label, "->", out[:25] + "...", "value exact:", ok)
        if not ok: bad += 1
    except Exception as e:
        bad += 1
        print(label, "-> raised", repr(e)[:110])
    print("   expected: a literal equal to", str(exact)[:25] + "... (all digits exact, n exceeds their number)")
run("nstr(mpf(2)**4000, 4290)", lambda: nstr(mpf(2)**4000, 4290), Decimal(2)**4000)   # works
run("nstr(mpf(2)**4000, 4300)", lambda: nstr(mpf(2)**4000, 4300), Decimal(2)**4000)
run("nstr(mpf(2)**-4000, 4300)", lambda: nstr(mpf(2)**-4000, 4300), Decimal(2)**-4000)
mp.dps = 6000
f2000 = 1
for k in range(2, 2001): f2000 *= k
run("mp.dps=6000; str(factorial(2000))", lambda: str(factorial(2000)), Decimal(f2000))
sys.exit(1 if bad else 0)
