import sys, os; sys.path.insert(0, os.getcwd())
# repr of an mpf that carries more mantissa bits than the context precision
# prints only repr_dps(prec) digits: evaluating it gives neither x nor even x
# rounded to nearest at that precision.
from mpmath import mp, mpf
from mpmath.libmp import from_man_exp
mp.prec = 53
man, exp = 13533527774777315898176868032729967045235441665, -23   # 154-bit mantissa
x = mp.make_mpf(from_man_exp(man, exp))
r = repr(x)
y = eval(r)
print("prec 53, x = %d * 2**%d" % (man, exp))
print("repr(x)            =", r)
print("eval(repr(x)) == x :", y == x, "   (expected True by the statement)")
print("eval(repr(x))      =", y._mpf_)
print("x rounded (+x)     =", (+x)._mpf_, " -> even the rounded value is missed:", y != +x)
sys.exit(1 if y != x else 0)
