# C08 violation 2: nstr of a number with |x| > 2^3500 (or < 2^-3500) and a mantissa of > ~14300 bits raises ValueError
import sys, os; sys.path.insert(0, os.getcwd())
from mpmath import mp, mpf, nstr
mp.dps = 5000
bad = 0
cases = [(mpf(10)**1100 / 3, '3.33333e+1099'),     # 16613-bit mantissa, exponent +1099
         (mpf(10)**-1100 / 3, '3.33333e-1101'),
         (mpf((2**15000 + 1, -10000)), '1.41247e+1505')]  # (2^15000+1)*2^-10000 = 1.412467032...e1505 exactly computed with ints
for x, want in cases:
    try:
        got = nstr(x, 6)
    except Exception as e:
        got = 'raised %s: %s' % (type(e).__name__, str(e)[:70])
    print('man bits=%d exp=%d  nstr(x, 6): observed %s | expected %r' % (x.bc, x.exp, got, want))
    if got != want: bad = 1
sys.exit(bad)
