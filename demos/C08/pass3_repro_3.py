import sys, os; sys.path.insert(0, os.getcwd())
# DEBATABLE: a value carrying more bits than the context precision does not survive repr
from mpmath import mp, mpf
mp.prec = 200
y = mpf(2)**100 + 1          # 101-bit mantissa
mp.prec = 53
r = repr(y)
back = eval(r)
print("x = 2**100+1 (101 bits), printed at prec=53:", r)
print("eval(repr(x)) == x:", back == y, "(expected True by the statement's quantifier)")
sys.exit(0 if back == y else 1)
