import sys, os; sys.path.insert(0, os.getcwd())
# iv "x[y,z]e" digit-group form: the ordering test in mpi_from_str compares the two
# literals after rounding both DOWN at prec+20 bits; when they agree to prec+20 bits
# and the smaller one is exactly representable, the groups are not swapped and the
# upper endpoint is ceil(smaller literal) < larger literal.
from fractions import Fraction
from mpmath import iv
from mpmath.libmp import to_rational
iv.prec = 53
fail = 0
for s, lits in [("0.5000000000000000000000000000[1,0]", ("0.50000000000000000000000000001", "0.50000000000000000000000000000")),
                ("-0.[49999999999999999999999999999999,5]", ("-0.49999999999999999999999999999999", "-0.5"))]:
    x = iv.mpf(s)
    a, b = (Fraction(*to_rational(t)) for t in x._mpi_)
    lo, hi = sorted(Fraction(t) for t in lits)
    ok = a <= lo and hi <= b
    print("input    :", s)
    print("observed : [%s, %s]" % (a, b))
    print("expected : an interval containing both %s and %s -> %s" % (lits[0], lits[1], "ok" if ok else "NOT ENCLOSED"))
    # the documented either-order behaviour works when the digits differ earlier:
    fail |= not ok
y = iv.mpf("0.50[1,0]"); print("control  : 0.50[1,0] ->", y, "(groups in the same reversed order are swapped correctly)")
sys.exit(1 if fail else 0)
