# C07 (debatable) 5: directed conversion through the approximate branch is on the right side but
# not correctly rounded: an exactly representable in-range literal gets a non-degenerate interval.
import sys, os; sys.path.insert(0, os.getcwd())
from mpmath import mp, mpf, iv
mp.prec = iv.prec = 53
lit = '1' + '0'*401 + 'e-401'          # exactly 1
f, c, x = mpf(lit, rounding='f'), mpf(lit, rounding='c'), iv.mpf(lit)
print('literal: "1" + "0"*401 + "e-401"  (exact value 1)')
print('observed floor  :', repr(float(f)), ' expected 1.0')
print('observed ceiling:', repr(float(c)), ' expected 1.0')
print('observed iv.mpf :', x, ' expected [1.0, 1.0];  iv.mpf("1e0") =', iv.mpf('1e0'))
sys.exit(1 if (f != 1 or c != 1) else 0)
