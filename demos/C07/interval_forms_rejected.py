# documented interval string forms that are rejected: "a +- b%" and an upper-case exponent in "x[y,z]E"
import sys, os; sys.path.insert(0, os.getcwd())
from mpmath import iv
from mpmath.libmp.libmpi import mpi_from_str
bad = 0
for s, expected in [('1 +- 10%', '[0.9-, 1.1+]  (same as "1 (10%)")'), ('1.2[3,7]E5', '[123000, 127000]  (same as "1.2[3,7]e5")')]:
    try:
        r = iv.mpf(s)
    except Exception as ex:
        r = 'EXCEPTION %s: %s' % (type(ex).__name__, ex); bad = 1
    print("iv.mpf(%r): observed %s ; expected %s" % (s, r, expected))
print('reference:', iv.mpf('1 (10%)'), iv.mpf('1.2[3,7]e5'))
sys.exit(1 if bad else 0)
