import sys, os; sys.path.insert(0, os.getcwd())
from fractions import Fraction
from decimal import Decimal
import mpmath
from mpmath.libmp import from_str, to_rational, from_man_exp, fzero

def lit_to_frac(s):
    s = s.strip().lower().rstrip('l')
    if '/' in s:
        p, q = s.split('/'); return Fraction(int(p), int(q))
    if 'e' in s:
        m, e = s.split('e'); e = int(e)
    else:
        m, e = s, 0
    neg = m.startswith('-'); m = m.lstrip('+-').replace('_','')
    if '.' in m:
        a, b = m.split('.')
    else:
        a, b = m, ''
    n = int((a + b) or '0'); e -= len(b)
    v = Fraction(n) * (Fraction(10) ** e)
    return -v if neg else v

def round_frac(v, prec, rnd):
    """correctly rounded raw value as Fraction"""
    if v == 0: return Fraction(0)
    sign = v < 0; a = abs(v)
    n, d = a.numerator, a.denominator
    # find e with 2^(prec-1) <= a/2^e < 2^prec
    e = n.bit_length() - d.bit_length() - prec
    def scaled(e):
        return (n << -e, d) if e < 0 else (n, d << e)
    while True:
        nn, dd = scaled(e)
        q = nn // dd
        if q.bit_length() > prec: e += 1
        elif q.bit_length() < prec: e -= 1
        else: break
    r = nn - q*dd
    if r:
        if rnd == 'n':
            if 2*r > dd or (2*r == dd and q & 1): q += 1
        elif rnd == 'u': q += 1
        elif rnd == 'd': pass
        elif rnd == 'f':
            if sign: q += 1
        elif rnd == 'c':
            if not sign: q += 1
    res = Fraction(q) * (Fraction(2) ** e)
    return -res if sign else res

def mpf_to_frac(t):
    sign, man, exp, bc = t
    if not man: return Fraction(0)
    v = Fraction(int(man)) * Fraction(2) ** exp
    return -v if sign else v
