# C07 violation 1: in-range literal routed through the approximate branch (|exp10| > 400)
# is not correctly rounded (round-to-nearest) -- double rounding via 10**exp at prec+10 bits.
import sys, os; sys.path.insert(0, os.getcwd())
from fractions import Fraction
from mpmath import mp, mpf
mp.prec = 53
bad = 0
# (a) exact tie 2**53+1 written with 401 trailing zeros and e-401 (value is the integer 9007199254740993)
lit = '9007199254740993' + '0'*401 + 'e-401'
got, exp = int(mpf(lit)), int(float(2**53 + 1))          # ties-to-even -> 9007199254740992
print('literal : 9007199254740993 followed by 401 zeros and "e-401"')
print('observed:', got, ' expected:', exp, ' (mpf("9007199254740993") ->', int(mpf('9007199254740993')), ')')
bad |= got != exp
# (b) fixed-point literal just above the midpoint 1+2**-53 (405 fractional digits)
lit = '1.00000000000000011102230246251565404236316680908203125' + '0'*349 + '1'
got, exp = mpf(lit), 1 + mpf(2)**-52     # exact value is 1 + 2**-53 + 1e-405, above the midpoint
print('literal : 1.00000000000000011102230246251565404236316680908203125 + "0"*349 + "1"')
print('observed:', repr(float(got)), ' expected:', repr(float(exp)), ' (Python float():', repr(float(lit)), ')')
bad |= got != exp
sys.exit(1 if bad else 0)
