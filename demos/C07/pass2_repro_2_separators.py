import sys, os; sys.path.insert(0, os.getcwd())
# p/q literal with a digit separator: from_str accepts '1_0/3' (= 10/3), but for a
# numerator/denominator longer than 600 characters str_to_int splits the string by
# CHARACTER count, so an underscore in the low half shifts the high half by one
# decimal place too many (silently wrong value), or int() fails on a piece.
from fractions import Fraction
from mpmath.libmp import from_str, to_rational
fail = 0
print("short    : from_str('1_0/3') =", float(Fraction(*to_rational(from_str('1_0/3', 53, 'n')))), "(separator accepted)")
p = '1' + '0'*400 + '_' + '0'*201          # the integer 10**601 written with one separator
q = '1' + '0'*601                           # 10**601
assert int(p) == int(q) == 10**601
for rnd in 'nfcdu':
    got = Fraction(*to_rational(from_str(p + '/' + q, 53, rnd)))
    print("input    : ('1'+'0'*400+'_'+'0'*201) + '/' + ('1'+'0'*601)  prec=53 rnd=%s  observed=%s  expected=1" % (rnd, got))
    if got != 1: fail = 1
ok = Fraction(*to_rational(from_str(p, 53, 'n'))) / Fraction(10**601)
print("control  : the same numerator as a plain integer literal: observed/exact = %.6g" % float(ok))
r = '1'*300 + '_' + '1'*301
try:
    from_str(r + '/1', 53, 'n'); print("second   : accepted")
except ValueError as e:
    print("second   : '1'*300+'_'+'1'*301+'/1' -> ValueError although int() accepts the numerator"); fail = 1
sys.exit(fail)
