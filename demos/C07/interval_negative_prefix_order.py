# '-x[y, z]e' as printed by mpi_to_str mode='diff' (larger digits first for a negative prefix)
# is read back with the endpoints exchanged: floor applied to the upper value, ceiling to the lower
import sys, os; sys.path.insert(0, os.getcwd())
from fractions import Fraction
from mpmath import iv
from mpmath.libmp import to_rational
from mpmath.libmp.libmpi import mpi_to_str, mpi_from_str
iv.prec = 53
x = iv.mpf(['-1.27e25', '-1.23e25'])
s = mpi_to_str(x._mpi_, 5, mode='diff')
print("interval [-1.27e25, -1.23e25] printed with mode='diff':", repr(s))
bad = 0
for t in (s, '-1.2[7,3]'):
    a, b = mpi_from_str(t, 53)
    F = lambda m: Fraction(*map(int, to_rational(m)))
    print("mpi_from_str(%r, 53): observed [%r, %r]" % (t, float(F(a)), float(F(b))), "-> inverted (a > b)" if F(a) > F(b) else "")
    bad |= F(a) > F(b)
print("expected: [-1.27e25 rounded down, -1.23e25 rounded up] resp. [-1.27 rounded down, -1.23 rounded up]")
sys.exit(1 if bad else 0)
