# C07 violation 3: valid literals whose integer part is empty and whose fraction is all zeros
# ('.0', '-.0', '+.00', '.0e5') raise ValueError instead of converting to 0.
import sys, os; sys.path.insert(0, os.getcwd())
from mpmath import mpf, iv
from mpmath.libmp import from_str
bad = 0
for lit in ['.0', '-.0', '+.00', '.0e5', '.000e-3']:
    for name, f in (('from_str', lambda s: from_str(s, 53, 'n')), ('mpf', mpf), ('iv.mpf', iv.mpf)):
        try:
            r = f(lit); print('%s(%r) ->' % (name, lit), r)
        except Exception as e:
            bad = 1; print('%s(%r): observed %s: %s; expected 0.0 (float(%r) = %r)' % (name, lit, type(e).__name__, e, lit, float(lit)))
print("for comparison mpf('.5') =", mpf('.5'), " mpf('0.0') =", mpf('0.0'))
sys.exit(1 if bad else 0)
