# DEBATABLE: string -> mpf with prec=0 ("exact"/no-rounding convention of mpmath) hangs or is silently wrong
import sys, os; sys.path.insert(0, os.getcwd())
import signal
from mpmath import mpf
from mpmath.libmp import from_str
class Timeout(Exception): pass
def on_alarm(*a): raise Timeout()
signal.signal(signal.SIGALRM, on_alarm)
bad = 0
def run(desc, f, expected):
    global bad
    signal.alarm(3)
    try: r = repr(f())
    except Timeout: r = 'NO RETURN within 3 s (infinite loop in normalize)'
    except Exception as e: r = 'raises %s' % type(e).__name__
    signal.alarm(0)
    ok = (r == expected)
    bad += not ok
    print('%-28s observed: %-52s expected: %s' % (desc, r, expected))
# control: integers and floats honour prec=0 as "exact"
run("mpf('5', prec=0)",   lambda: mpf('5', prec=0),   "mpf('5.0')")
run("mpf(0.5, prec=0)",   lambda: mpf(0.5, prec=0),   "mpf('0.5')")
# exactly representable decimal / rational literals
run("from_str('0.5', 0, 'n')", lambda: from_str('0.5', 0, 'n'), "(0, 1, -1, 1)")
run("mpf('0.5', prec=0)", lambda: mpf('0.5', prec=0), "mpf('0.5')")
run("mpf('1/2', prec=0)", lambda: mpf('1/2', prec=0), "mpf('0.5')")
run("mpf('2.5', prec=0)", lambda: mpf('2.5', prec=0), "mpf('2.5')")
run("mpf('3/1', prec=0)", lambda: mpf('3/1', prec=0), "mpf('3.0')")
print('violation present' if bad else 'no violation')
sys.exit(1 if bad else 0)
