# C07 (debatable) 4: literals with more than 4300 digits raise ValueError on Python >= 3.11
# (int() string-conversion limit hit inside str_to_man_exp), although float() accepts them.
import sys, os; sys.path.insert(0, os.getcwd())
from mpmath import mpf
bad = 0
for lit in ['0.' + '3'*4400, '1' + '0'*4400 + 'e-4400', '1.' + '0'*4400]:
    try:
        print('mpf(%s... [%d chars]) ->' % (lit[:12], len(lit)), mpf(lit))
    except Exception as e:
        bad = 1; print('mpf(%s... [%d chars]): observed %s: %s; expected %r' % (lit[:12], len(lit), type(e).__name__, str(e)[:60], float(lit)))
sys.exit(1 if bad else 0)
