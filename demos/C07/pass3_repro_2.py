# DEBATABLE: a p/q literal with more than 4300 digits converts through mpf()/mpmathify() but not
# when it is passed as a hypergeometric parameter (ctx_mp_python._convert_param uses int(), not str_to_int)
import sys, os; sys.path.insert(0, os.getcwd())
from mpmath import mp, mpf, hyp0f1, hyp1f1
z = '0'*5000
s = '1' + z + '/3' + z          # the literal 10^5000 / (3*10^5000) = 1/3
print("literal: '1' + 5000 zeros + '/3' + 5000 zeros   (= 1/3)")
print("mpf(literal)            =", mpf(s))
expected = hyp0f1('1/3', 1)
print("hyp0f1('1/3', 1)        =", expected, " (expected result)")
bad = 0
for name, f in [("hyp0f1(literal, 1)", lambda: hyp0f1(s, 1)), ("hyp1f1(literal, 2, 1)", lambda: hyp1f1(s, 2, 1))]:
    try:
        r = f(); print("%-23s =" % name, r)
    except Exception as e:
        bad += 1; print("%-23s raises %s: %s" % (name, type(e).__name__, str(e)[:70]))
print('violation present' if bad else 'no violation')
sys.exit(1 if bad else 0)
