# C07 violation 2: underscore digit separators (valid Python float literals, accepted by the
# float(x) validation in str_to_man_exp) in the fractional part are counted as digits -> wrong value.
import sys, os; sys.path.insert(0, os.getcwd())
from mpmath import mp, mpf, iv
mp.prec = iv.prec = 53
bad = 0
for lit in ['1.0_5', '1.2_5', '3.141_592_653']:
    got, exp = mpf(lit), mpf(lit.replace('_', ''))
    print('mpf(%r): observed %s  expected %s  (float: %r)' % (lit, got, exp, float(lit)))
    bad |= got != exp
x = iv.mpf('1.0_5')       # floor/ceiling conversion: both ends on the wrong side of 1.05
print("iv.mpf('1.0_5'): observed", x, ' expected an enclosure of 1.05; contains 1.05:', iv.mpf('1.05') in x)
bad |= not (iv.mpf('1.05') in x)
sys.exit(1 if bad else 0)
