# Literals with more than 4300 digits cannot be converted (Python int<->str digit limit is not handled)
import sys, os; sys.path.insert(0, os.getcwd())
from fractions import Fraction
from mpmath import mp, mpf, iv
from mpmath.libmp import from_str, to_rational
bad = 0
s = '1.' + '0'*4300 + '1'            # = 1 + 10^-4301, magnitude ~1 (inside [1e-100, 1e100])
v = Fraction(1) + Fraction(1, 10**4301)
print("input : '1.' + '0'*4300 + '1'   (4302 digits, value 1 + 10^-4301)")
for rnd, expected in [('n', Fraction(1)), ('f', Fraction(1)), ('c', 1 + Fraction(1, 2**52))]:
    try:
        p, q = to_rational(from_str(s, 53, rnd)); got = Fraction(int(p), int(q))
    except Exception as ex:
        got = 'EXCEPTION %s: %s' % (type(ex).__name__, str(ex)[:60])
    print(" from_str(s, 53, %r): observed %s ; expected %s" % (rnd, got, float(expected).hex()))
    bad |= (got != expected)
# a second, everyday instance: a 5000-digit value printed by mpmath cannot be read back
mp.dps = 5000
t = mp.nstr(mp.pi, 5000)
try:
    back = mpf(t); ok = abs(back - mp.pi) < mpf(10)**-4990
    print("mpf(nstr(pi, 5000)) at dps=5000: observed", 'value ok' if ok else 'wrong value', "; expected pi to 5000 digits")
    bad |= (not ok)
except Exception as ex:
    print("mpf(nstr(pi, 5000)) at dps=5000: observed EXCEPTION %s: %s ; expected pi to 5000 digits" % (type(ex).__name__, str(ex)[:70]))
    bad = 1
sys.exit(1 if bad else 0)
