# '[y, z]e' (shared-digit form with empty prefix, as printed by mpi_to_str mode='diff'):
# the exponent is applied to the upper endpoint only -> lower endpoint on the wrong side, a > b
import sys, os; sys.path.insert(0, os.getcwd())
from fractions import Fraction
from mpmath import iv
from mpmath.libmp import to_rational
from mpmath.libmp.libmpi import mpi_to_str, mpi_from_str
iv.prec = 53
x = iv.mpf(['4e-20', '6e-20'])
s = mpi_to_str(x._mpi_, 5, mode='diff')
print("interval [4e-20, 6e-20] printed with mode='diff':", repr(s))
a, b = mpi_from_str(s, 53)
F = lambda m: Fraction(*map(int, to_rational(m)))
lo, hi = Fraction(4, 10**20), Fraction(6, 10**20)
print("mpi_from_str(%r, 53): observed lower endpoint %s, upper endpoint %s" % (s, float(F(a)), float(F(b))))
print("expected: lower endpoint <= 4e-20 (floor of 4.0e-20 = %s), upper >= 6e-20" % float(lo))
bad = not (F(a) <= lo and hi <= F(b))
print("lower endpoint is on the wrong side of the exact decimal 4.0e-20; interval inverted (a > b):", F(a) > F(b))
sys.exit(1 if bad else 0)
