import sys, os; sys.path.insert(0, os.getcwd())
# stieltjes_cache: stieltjes(n, a) stores its result under n whenever a == 1; a = 1+0j compares
# equal to 1, so the complex-typed result of stieltjes(2, 1+0j) is served for stieltjes(2)
from mpmath import mp, mpf, stieltjes
mp.prec = 53
c = mp.clone()
fresh = c.stieltjes(2)                 # context with an empty cache
print("input: stieltjes(2) at prec 53; expected (fresh cache):", repr(fresh))
stieltjes(2, 1+0j)                     # history: another argument a
later = stieltjes(2)
print("observed after stieltjes(2, 1+0j):", repr(later))
bad = not isinstance(later, mpf)
try:
    float(later)
except TypeError as ex:
    print("float(stieltjes(2)) now raises", repr(ex)); bad = True
sys.exit(1 if bad else 0)
