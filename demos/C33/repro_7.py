import sys, os; sys.path.insert(0, os.getcwd())
# C33: odefun.get_series appends to series_boundaries and then to series_data. An exception
# arriving between the two appends leaves the two lists permanently out of step: later
# evaluations of the same solution object raise IndexError (fresh object: fine).
from mpmath import mp, mpf
class Abort(BaseException): pass
def tracer(frame, event, arg):
    if frame.f_code.co_name == 'get_series':
        def local(fr, ev, a):
            if ev == 'line' and fr.f_lineno == 265: raise Abort()    # "series_data.append(...)"
            return local
        return local
mp.prec = 53
f = mp.odefun(lambda x, y: y, 0, 1)        # y' = y, y(0) = 1
sys.settrace(tracer)
try: f(3)
except Abort: print("f(3) aborted by injected exception")
finally: sys.settrace(None)
bad = 0
for x in [0.5, 1, 2, 3, 5]:
    try: v = f(x); s = mp.nstr(v, 15); ok = abs(v - mp.exp(x)) < 1e-10*mp.exp(x)
    except Exception as e: s = "raised %s: %s" % (type(e).__name__, e); ok = False
    print("f(%s): observed %s expected %s" % (x, s, mp.nstr(mp.exp(x), 15)))
    bad += (not ok)
sys.exit(1 if bad else 0)
