import sys, os; sys.path.insert(0, os.getcwd())
# C33: an exception arriving inside constant_memo (libelefun.py) between
# "f.memo_val = f(newprec)" and "f.memo_prec = newprec" leaves the pi cache
# holding a value at the NEW precision labelled with the OLD precision.
from mpmath import mp, mpf
class Abort(BaseException): pass          # stands for KeyboardInterrupt / alarm timeout
def tracer(frame, event, arg):
    co = frame.f_code
    if co.co_name == 'g' and co.co_filename.endswith('libelefun.py'):
        def local(fr, ev, a):
            if ev == 'line' and fr.f_lineno == co.co_firstlineno + 6:   # "f.memo_prec = newprec"
                raise Abort()
            return local
        return local
mp.prec = 53
before = +mp.pi                      # history: pi cached at ~65 bits
mp.prec = 400
sys.settrace(tracer)
try: +mp.pi                          # upgrade of the cache, aborted by the exception
except Abort: print("call at prec 400 aborted by injected exception")
finally: sys.settrace(None)
mp.prec = 53
after = +mp.pi
print("inputs: +mp.pi at prec 53, before and after an aborted +mp.pi at prec 400")
print("expected:", before, " observed:", after, "; sin(10) now:", mp.sin(10), "(expected -0.54402111088937)")
sys.exit(1 if after != before else 0)
