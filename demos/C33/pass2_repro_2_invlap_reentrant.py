# invertlaplace keeps its working data (degree, abscissas p, weights V/theta/delta, saved
# precision) on one rule object per context (ctx._stehfest, ctx._fixed_talbot, ctx._de_hoog);
# an invertlaplace call made while another one is evaluating its integrand overwrites them.
import sys, os; sys.path.insert(0, os.getcwd())
from mpmath import mp, mpf
from mpmath.calculus.inverselaplace import Stehfest
mp.dps = 15
def make_F(method):
    def F(p):   # a transform whose coefficient is itself defined by an inverse Laplace transform
        c = mp.invertlaplace(lambda s: 1/(s+2), mpf(0.3), method=method)   # = exp(-0.6)
        return c/(p+1)
    return F
expected = mp.exp(-0.6)*mp.exp(-1.5)
shared = mp.invertlaplace(make_F('stehfest'), mpf(1.5), method='stehfest')   # shared rule object
private = mp.invertlaplace(make_F(Stehfest), mpf(1.5), method=Stehfest)      # one rule object per call
print("input: invertlaplace(F, 1.5) with F(p) = invertlaplace(1/(s+2), 0.3)/(p+1), dps=15")
print("observed (method='stehfest', shared state):", shared)
print("same computation with method=Stehfest class :", private)
print("expected exp(-0.6)*exp(-1.5)               :", expected)
bad = abs(shared-expected) > 1e-6*abs(expected)
sys.exit(1 if bad else 0)
