import sys, os; sys.path.insert(0, os.getcwd())
# LU cache: LU_decomp(A, overwrite=True) documents that A is overwritten with L and U; when an
# earlier LU_decomp(A)/lu(A) left cached factors in A, the call returns them and leaves A alone
from mpmath import mp, matrix
mp.prec = 53
A = matrix([[4, 3], [6, 3]])
B = A.copy()
mp.LU_decomp(B, overwrite=True)
print("input A =", A.tolist())
print("expected A after LU_decomp(A, overwrite=True) (fresh):", B.tolist())
C = A.copy()
mp.lu(C)                               # history: caches the factors in C
mp.LU_decomp(C, overwrite=True)
print("observed after an earlier lu(A):                      ", C.tolist())
sys.exit(1 if C != B else 0)
