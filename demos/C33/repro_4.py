import sys, os; sys.path.insert(0, os.getcwd())
# C33: LU_decomp hands out the very objects it keeps in A._LU (both when it computes and
# when it hits the cache). Changing the returned factor matrix / pivot list in place
# corrupts every later lu(A) / LU_decomp(A), although A itself never changed.
from mpmath import mp
mp.prec = 53
A = mp.matrix([[3, 1, 2], [1, 5, -1], [2, -1, 7]])
LU, p = mp.LU_decomp(A)
for i in range(3):                 # caller extracts U in place from ITS result
    for j in range(i): LU[i, j] = 0
P, L, U = mp.lu(A)                 # later call: silently reuses the modified cache entry
resid = mp.mnorm(P*A - L*U, 1)
P2, L2, U2 = mp.lu(A.copy())       # same matrix without history
print("input: A 3x3; LU,p = LU_decomp(A); zero the strict lower part of LU; lu(A)")
print("observed |P*A - L*U|_1 =", resid, " L =", L.tolist())
print("expected |P*A - L*U|_1 =", mp.mnorm(P2*A - L2*U2, 1), " L =", L2.tolist())
sys.exit(1 if resid > 1e-10 else 0)
