import sys, os; sys.path.insert(0, os.getcwd())
# C33: LU_decomp stores "orig._LU = (A, p)" and only then "orig._LU_prec = ctx.prec";
# __setitem__ clears _LU but keeps the old _LU_prec. An exception arriving between the two
# stores leaves a LOW precision factorisation labelled with the earlier HIGH precision.
from mpmath import mp, mpf
class Abort(BaseException): pass
def tracer(frame, event, arg):
    if frame.f_code.co_name == 'LU_decomp':
        def local(fr, ev, a):
            if ev == 'line' and fr.f_lineno == 156: raise Abort()   # "orig._LU_prec = ctx.prec"
            return local
        return local
A = mp.matrix([[3, 1, 2], [1, 5, -1], [2, -1, 7]])
mp.prec = 300; mp.LU_decomp(A)            # history: factorised at 300 bits
A[0, 0] = mpf(1)/3                        # mutation: clears _LU (not _LU_prec)
mp.prec = 30
sys.settrace(tracer)
try: mp.LU_decomp(A)                      # aborted between the two stores
except Abort: print("LU_decomp at prec 30 aborted by injected exception")
finally: sys.settrace(None)
mp.prec = 200
P, L, U = mp.lu(A)                        # probe at 200 bits
err = mp.mnorm(P*A - L*U, 1)
P2, L2, U2 = mp.lu(A.copy()); ref = mp.mnorm(P2*A - L2*U2, 1)
print("probe lu(A) at prec 200: |P*A-L*U| observed %s, expected about %s" % (mp.nstr(err, 5), mp.nstr(ref, 5)))
sys.exit(1 if err > mpf(2)**-150 else 0)
