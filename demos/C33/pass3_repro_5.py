import sys, os; sys.path.insert(0, os.getcwd())
# odefun: the Taylor segments (series_data) and the tolerance belong to the precision at which
# the solution object was created and are reused at any higher precision
from mpmath import mp, mpf, odefun, e
mp.dps = 15
f = odefun(lambda x, y: y, 0, 1)
f(2)                                   # history: segments computed for 15 digits
mp.dps = 50
later = f(2)
fresh = odefun(lambda x, y: y, 0, 1)(2)
exact = e**2
print("input: y' = y, y(0) = 1, y(2) at 50 digits; exact", exact)
print("expected (solution object made at 50 digits):", fresh, " error %s" % mp.nstr(abs(fresh-exact), 3))
print("observed (object made at 15 digits, used at 50):  ", later, " error %s" % mp.nstr(abs(later-exact), 3))
sys.exit(1 if abs(later-exact) > mpf(10)**-45 else 0)
