import sys, os; sys.path.insert(0, os.getcwd())
from mpmath import mp, mpf
def build():
    mp.prec = 100
    return mp.matrix([[1, 1], [1, 1 + mpf(2)**-80]])      # entries exact at 100 bits
def lu_at_53(A):
    mp.prec = 53
    try:
        P, L, U = mp.lu(A)
        return "U = %s" % U.tolist()
    except ZeroDivisionError as ex:
        return "ZeroDivisionError(%s)" % ex
A = build()
fresh = lu_at_53(A)                  # no history: decided at 53 bits
B = build()
mp.prec = 100; mp.lu(B)              # history: the same call at 100 bits (caches B._LU, _LU_prec = 100)
after = lu_at_53(B)
print("A = [[1, 1], [1, 1 + 2**-80]];  mp.prec = 53;  mp.lu(A)")
print("without history:          ", fresh)
print("after mp.lu(A) at prec 100:", after)
sys.exit(1 if fresh != after else 0)
