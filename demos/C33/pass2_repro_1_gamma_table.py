# gamma_taylor_cache: a table built for working precision wp is stored under the
# key int(1.2*wp) with the (smaller) number of terms sized for wp; a later call whose
# working precision is exactly int(1.2*wp) takes it as a full table.
import sys, os; sys.path.insert(0, os.getcwd())
from mpmath import mp, mpf
x = 1.49999                      # exact double
P1, P2 = 3479, 4179              # working precisions 3500 and 4200 = int(1.2*3500)
mp.prec = 6000
ref = mp.gamma(mpf(x))           # Stirling branch (wp >= 5000), independent of the table
mp.prec = P1
mp.gamma(mpf(x))                 # history: one gamma evaluation at 3479 bits
mp.prec = P2
got = mp.gamma(mpf(x))           # probe
from mpmath.libmp import gammazeta
gammazeta.gamma_taylor_cache.clear()
fresh = mp.gamma(mpf(x))         # same call with an empty cache (= fresh process)
mp.prec = 6000
err_got = abs(got-ref)/ref; err_fresh = abs(fresh-ref)/ref
lost = P2 + mp.mag(err_got) if err_got else 0
print("x =", x, " history: gamma(x) at prec", P1, "; probe: gamma(x) at prec", P2)
print("relative error after history :", mp.nstr(err_got, 5), "(%d bits lost)" % lost)
print("relative error, empty cache  :", mp.nstr(err_fresh, 5), "(expected: <= 2**-%d = %s)" % (P2, mp.nstr(mpf(2)**-P2, 5)))
sys.exit(1 if lost > 3 else 0)
