import sys, os; sys.path.insert(0, os.getcwd())
# C33 (debatable): an odefun solution object freezes tolerance, degree and working precision
# at creation. Reused after the precision was raised, it returns its old Taylor segments
# (53-bit accuracy) padded to the new precision, with no error or recomputation.
from mpmath import mp, mpf
mp.prec = 53
f = mp.odefun(lambda x, y: y, 0, 1)     # created (and first segment cached) at 53 bits
f(2)
mp.prec = 200
old = f(2)                               # reuse at 200 bits
new = mp.odefun(lambda x, y: y, 0, 1)(2) # no history
ref = mp.exp(2)
e_old = abs(old - ref) / ref; e_new = abs(new - ref) / ref
print("probe y(2) of y'=y, y(0)=1 at prec 200")
print("observed (object from prec 53):", old, " rel.err 2^%s" % mp.nstr(mp.log(e_old, 2), 4))
print("expected (fresh object)       :", new, " rel.err 2^%s" % (mp.nstr(mp.log(e_new, 2), 4) if e_new else '-inf'))
sys.exit(1 if e_old > mpf(2)**-150 else 0)
