import sys, os; sys.path.insert(0, os.getcwd())
# LU cache: factors cached at a higher precision are returned at a lower one although the
# decomposition at that precision fails (the singularity tolerance depends on the precision)
from mpmath import mp, mpf, matrix
mp.prec = 200
S = matrix([[1, 1], [1, 1 + mpf(2)**-100]])
mp.prec = 53
def probe(M):
    try: return repr(mp.LU_decomp(M)[0].tolist())
    except ZeroDivisionError as ex: return "ZeroDivisionError: %s" % ex
fresh = probe(S.copy())
print("input: LU_decomp([[1,1],[1,1+2^-100]]) at prec 53")
print("expected (fresh):", fresh)
mp.prec = 200; mp.LU_decomp(S); mp.prec = 53      # history at another precision
later = probe(S)
print("observed after LU_decomp at prec 200:", later)
sys.exit(1 if later != fresh else 0)
