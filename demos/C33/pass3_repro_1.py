import sys, os; sys.path.insert(0, os.getcwd())
# quad node cache: the key (a, b, degree, prec) is built from the raw end points; 0j == 0 and
# 1+0j == 1 (equal hashes), so the complex nodes cached for [0j, 1+0j] are served for [0, 1]
from mpmath import mp, quad, atan2, mpf, log, pi
mp.prec = 53
f = lambda x: atan2(x, 1)             # an integrand that accepts real arguments only
g = lambda x: x**2
expected = pi/4 - log(2)/2
print("inputs: quad(lambda x: atan2(x,1), [0,1]) and quad(lambda x: x**2, [0,1]) at prec 53")
print("expected (fresh process):", expected, "and mpf('0.33333333333333331')")
quad(g, [0j, 1+0j]); quad(g, [0j, 1+0j])   # history: the second visit stores the complex nodes
bad = False
try:
    later = quad(f, [0, 1])
    print("observed after quad(g,[0j,1+0j]) twice:", later)
    bad = abs(later - expected) > 1e-12
except Exception as ex:
    print("observed after quad(g,[0j,1+0j]) twice: raises", repr(ex))
    bad = True
t = quad(g, [0, 1])
print("observed quad(x**2,[0,1]) =", repr(t))
bad = bad or not isinstance(t, mpf)
sys.exit(1 if bad else 0)
