# LU_decomp caches (LU, p) on the matrix and hands out the cached objects themselves, on the
# first call and on every later one.  Writing into the returned factor matrix (e.g. to split
# it into L and U in place) silently changes what lu(), LU_decomp() return for the unchanged A.
import sys, os; sys.path.insert(0, os.getcwd())
from mpmath import mp, matrix, mnorm
mp.prec = 53
A = matrix([[4, 3], [6, 3]])
LU, p = mp.LU_decomp(A)          # LU = [[6, 3], [2/3, 1]]
LU[1, 0] = 0                     # caller keeps only the U part of its own result
P, L, U = mp.lu(A)               # A itself was never modified
res = mnorm(P*A - L*U, 1)
B = matrix([[4, 3], [6, 3]])     # equal matrix without history
P2, L2, U2 = mp.lu(B)
print("A =", A.tolist())
print("observed lu(A): L =", L.tolist(), " |P*A - L*U| =", res)
print("expected lu(A): L =", L2.tolist(), " |P*A - L*U| =", mnorm(P2*B - L2*U2, 1))
sys.exit(1 if res > 1e-10 else 0)
