import sys, os; sys.path.insert(0, os.getcwd())
from mpmath import mp, matrix
mp.prec = 53
calls = []
def hilb(n):
    calls.append(n)
    return mp.hilbert(n)
f = mp.memoize(hilb)
A = f(2)                 # first call: computed, stored, and the stored object itself is returned
A[0, 0] = 99             # the caller works on its result
B = f(2)                 # served from the cache
expected = mp.hilbert(2)
print("f = mp.memoize(hilbert-like function); A = f(2); A[0,0] = 99; f(2)")
print("observed f(2) =", B.tolist())
print("expected f(2) =", expected.tolist(), "(value in a fresh process; calls to the function: %s)" % calls)
B[0, 0] = 77             # a cache hit hands out a copy (+value): this does not reach the cache
print("after mutating a cache-hit result: f(2)[0,0] =", f(2)[0, 0])
sys.exit(1 if B.tolist() != expected.tolist() else 0)
