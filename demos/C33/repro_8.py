import sys, os; sys.path.insert(0, os.getcwd())
# C33: gammazeta.primesieve replaces its three module-level caches one after the other
# (sieve_cache, primes_cache, mult_cache). An exception arriving after the first store
# leaves a long sieve next to short prime/multiplicity tables; from then on every
# zeta(s) that needs a smaller sieve fails (fresh process: returns the value).
from mpmath import mp, mpc
class Abort(BaseException): pass
def tracer(frame, event, arg):
    if frame.f_code.co_name == 'primesieve':
        def local(fr, ev, a):
            if ev == 'line' and fr.f_lineno == 1194: raise Abort()    # "primes_cache = primes"
            return local
        return local
mp.prec = 53
s_small, s_big = mpc(0.5, 40), mpc(0.5, 400)
mp.zeta(s_small)                          # history: small sieve cached
sys.settrace(tracer)
try: mp.zeta(s_big)                       # needs a bigger sieve; aborted between the stores
except Abort: print("zeta(0.5+400j) aborted by injected exception")
finally: sys.settrace(None)
bad = 0
for s, exp in [(mpc(0.5, 60), '(0.541201 + 0.227184j)'), (mpc(2, 100), '(1.19078 - 0.053891j)')]:
    try: r = mp.nstr(mp.zeta(s), 6)
    except Exception as e: r = "raised %s: %s" % (type(e).__name__, e)
    print("zeta(%s): observed %s expected %s" % (mp.nstr(s, 5), r, exp))
    bad += (r != exp)
sys.exit(1 if bad else 0)
