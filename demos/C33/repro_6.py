import sys, os; sys.path.insert(0, os.getcwd())
# C33: libintmath.eulernum writes the PARTIAL sum into _cache[n] on every pass of its inner
# loop. An exception arriving inside that loop leaves a wrong Euler number in the cache,
# and every later eulernum(n) (any context, any precision) returns it.
from mpmath import mp
class Abort(BaseException): pass
hits = [0]
def tracer(frame, event, arg):
    if frame.f_code.co_name == 'eulernum' and frame.f_code.co_filename.endswith('libintmath.py'):
        def local(fr, ev, a):
            if ev == 'line' and fr.f_lineno == 545:          # the "_cache[n] = ..." line
                hits[0] += 1
                if hits[0] == 66: raise Abort()
            return local
        return local
sys.settrace(tracer)
try: mp.eulernum(20)
except Abort: print("eulernum(20) aborted by injected exception")
finally: sys.settrace(None)
expected = {10: -50521, 12: 2702765, 14: -199360981, 16: 19391512145}
bad = 0
for n, e in expected.items():
    v = mp.eulernum(n, exact=True)
    print("eulernum(%d): observed %d expected %d" % (n, v, e))
    bad += (v != e)
sys.exit(1 if bad else 0)
