import sys, os; sys.path.insert(0, os.getcwd())
# C33: on a cache miss mp.memoize stores and returns the SAME object. For a matrix-valued
# function, mutating the matrix returned by the first call silently changes what every
# later call returns (later calls get a copy of the mutated cache entry).
from mpmath import mp
mp.prec = 53
f = mp.memoize(lambda n: mp.hilbert(n))
A = f(2)                 # first call, returns the object that is stored in the cache
A[0, 0] = 1000           # caller mutates its own result (e.g. in-place elimination)
B = f(2)                 # later call with the same argument and precision
expected = mp.hilbert(2)
print("input: f = mp.memoize(hilbert); A = f(2); A[0,0] = 1000; f(2)")
print("observed f(2):", B.tolist())
print("expected f(2):", expected.tolist())
sys.exit(1 if B != expected else 0)
