import sys, os; sys.path.insert(0, os.getcwd())
# primepi2 computes its enclosure with the interval context iv at iv's own precision: the
# result of mp.primepi2 at a fixed mp precision depends on the state of another context
from mpmath import mp, iv
mp.prec = 53
fresh = mp.primepi2(10**10)
iv.prec = 10                           # history: another context is given another precision
later = mp.primepi2(10**10)
iv.prec = 53
print("input: mp.primepi2(10**10) at mp.prec = 53")
print("expected (iv.prec = 53):", fresh)
print("observed (iv.prec = 10):", later)
sys.exit(1 if (later.a, later.b) != (fresh.a, fresh.b) else 0)
