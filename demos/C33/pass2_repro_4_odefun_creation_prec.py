# odefun fixes tolerance, degree and working precision when the solution object is created and
# stores Taylor segments computed with them; calling the object after the precision was raised
# reuses these segments (and evaluates at the old working precision) instead of refining them.
import sys, os; sys.path.insert(0, os.getcwd())
from mpmath import mp, mpf
mp.prec = 53
f = mp.odefun(lambda x, y: y, 0, 1)      # y' = y, y(0) = 1
f(1)                                     # history: evaluation at 53 bits
mp.prec = 200
got = f(1)                               # probe at 200 bits
fresh = mp.odefun(lambda x, y: y, 0, 1)(1)
err_got = abs(got - mp.e)/mp.e; err_fresh = abs(fresh - mp.e)/mp.e
print("probe: f(1) at prec 200, f = odefun(y'=y) created at prec 53")
print("observed:", got)
print("expected:", +mp.e)
print("relative error with history: 2^%d ; fresh odefun at prec 200: %s" % (mp.mag(err_got), mp.nstr(err_fresh, 3)))
sys.exit(1 if err_got > mpf(2)**-190 else 0)
