"""Inject an exception at the k-th traced line of chosen functions during `op`,
then run `probe` and compare with the value from a pristine forked child."""
import sys, os; sys.path.insert(0, os.getcwd())
import signal, random, pickle
import mpmath
from mpmath import mp, mpf, mpc, fp, iv, libmp
sys.path.insert(0, '/tmp/hunt8/C33')
from harness import fmt, ulpdiff

def close(v, ref, tol=2.01):
    # v, ref: lists of (prec, value-fmt)
    if len(v) != len(ref): return False
    for (p, a), (q, b) in zip(v, ref):
        d = ulpdiff(a, b, p)
        if d is None or d > tol: return False
    return True

class Inj(BaseException): pass
EXP = {}
ROOT = os.path.dirname(mpmath.__file__)

class Tracer:
    def __init__(self, k, funcs=None):
        self.k = k; self.n = 0; self.funcs = funcs; self.where = None; self.fired = False
    def glob(self, frame, event, arg):
        co = frame.f_code
        if not co.co_filename.startswith(ROOT):
            return None
        if self.funcs is not None and co.co_name not in self.funcs:
            return None
        return self.loc
    def loc(self, frame, event, arg):
        if event == 'line':
            self.n += 1
            if self.n == self.k:
                self.fired = True
                self.where = (os.path.basename(frame.f_code.co_filename), frame.f_code.co_name, frame.f_lineno)
                raise Inj()
        return self.loc

def run_traced(op, k, funcs):
    t = Tracer(k, funcs)
    sys.settrace(t.glob)
    try:
        op()
    except Inj:
        pass
    except Exception:
        pass
    finally:
        sys.settrace(None)
    return t

def in_child(fn, tmo=60):
    r, w = os.pipe()
    pid = os.fork()
    if pid == 0:
        os.close(r)
        signal.alarm(tmo)
        try:
            out = fn()
        except BaseException as ex:
            out = ('EXC', repr(ex))
        os.write(w, pickle.dumps(out))
        os._exit(0)
    os.close(w)
    data = b''
    while True:
        b = os.read(r, 65536)
        if not b: break
        data += b
    os.close(r)
    os.waitpid(pid, 0)
    return pickle.loads(data) if data else ('DEAD',)

def scenario(name, setup, op, probe, funcs, maxk=400, step=1):
    """Each injection runs in its own child forked from the pristine parent:
    setup(); op() aborted at line k; probe().  Reference: setup(); probe() in a child
    (no op at all) and setup(); op(); probe() complete."""
    def count():
        setup()
        t = run_traced(op, -1, funcs)
        return t.n
    n = in_child(count)
    ref_noop = in_child(lambda: (setup(), probe())[1])
    ref_full = in_child(lambda: (setup(), op(), probe())[2])
    print("== %s: %s traced lines; ref_noop==ref_full: %s" % (name, n, ref_noop == ref_full), flush=True)
    bad = []
    ks = list(range(1, min(n, maxk)+1, step))
    if n > maxk:
        ks += sorted(set(random.Random(1).sample(range(maxk+1, n+1), min(200, n-maxk))))
    for k in ks:
        def one():
            st = setup()
            p0 = (mp.prec, mp._prec_rounding[1], mp.trap_complex, iv.prec)
            t = run_traced(op, k, funcs)
            p1 = (mp.prec, mp._prec_rounding[1], mp.trap_complex, iv.prec)
            if 'prec' in EXP: p0 = (EXP['prec'],) + p0[1:]
            return (t.where, p0 == p1, p1, probe())
        res = in_child(one)
        if res[0] in ('EXC', 'DEAD'):
            print("   k=%d child: %r" % (k, res)); continue
        where, okstate, p1, val = res
        if not okstate:
            bad.append((k, where, 'STATE', p1)); print("   k=%d %s STATE LEAK %s" % (k, where, p1), flush=True)
        if not close(val, ref_noop) and not close(val, ref_full):
            bad.append((k, where, 'VALUE', val)); print("   k=%d %s VALUE %r\n        noop %r\n        full %r" % (k, where, val, ref_noop, ref_full), flush=True)
    print("   %d injections, %d bad" % (len(ks), len(bad)), flush=True)
    return bad
