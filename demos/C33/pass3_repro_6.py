import sys, os; sys.path.insert(0, os.getcwd())
# memoize: the key is the tuple of raw arguments; 0.0 == -0.0 and 3 == mpf(3) (equal hashes),
# so a value computed for one argument is returned for another one
from mpmath import mp, fp, mpf
g = fp.memoize(fp.atan2)
fresh = fp.atan2(-0.0, -1.0)
g(0.0, -1.0)                           # history
later = g(-0.0, -1.0)
print("input: fp.memoize(fp.atan2)(-0.0, -1.0); expected", fresh, "observed after g(0.0, -1.0):", later)
mp.prec = 100
h = mp.memoize(lambda x: 1/x)
h(3)                                   # history: Python float 1/3 stored with the tag prec = 100
later2 = h(mpf(3))
print("input: mp.memoize(lambda x: 1/x)(mpf(3)) at prec 100; expected", repr(1/mpf(3)))
print("observed after h(3):", repr(later2))
bad = (later != fresh) or abs(later2 - 1/mpf(3)) > mpf(2)**-90
sys.exit(1 if bad else 0)
