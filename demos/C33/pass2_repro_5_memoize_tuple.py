# memoize returns "+cvalue" on a cache hit; for a function whose value is not a number
# (a tuple such as quad(..., error=True) or frexp) the second identical call raises.
import sys, os; sys.path.insert(0, os.getcwd())
from mpmath import mp, mpf
mp.prec = 53
f = mp.memoize(lambda x: mp.quad(mp.sin, [0, x], error=True))
first = f(1)
try:
    second = f(1)
except Exception as e:
    second = "%s: %s" % (type(e).__name__, e)
print("f = memoize(lambda x: quad(sin, [0, x], error=True))")
print("first  f(1):", first)
print("second f(1):", second, "  (expected: the same pair)")
sys.exit(0 if second == first else 1)
