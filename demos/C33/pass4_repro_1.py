import sys, os; sys.path.insert(0, os.getcwd())
from mpmath import mp; bad = []
Inj = type('Inj', (BaseException,), {})
def aborted(op, k, names=('__setitem__', '__setrows', '__setcols', '__set_element')):
    n = [0]                      # raise Inj at the k-th line executed inside the matrix setters
    def loc(frame, event, arg):
        n[0] += (event == 'line')
        if n[0] == k: raise Inj()
        return loc
    sys.settrace(lambda fr, ev, arg: loc if fr.f_code.co_name in names else None)
    try: op()
    except Inj: return True
    finally: sys.settrace(None)
def lu(M):
    try: return str(mp.LU_decomp(M)[0].tolist())
    except (ZeroDivisionError, ValueError) as ex: return repr(ex)
ops = {'A[0,0] = 7': lambda A: A.__setitem__((0, 0), 7), 'A[0:2,0:2] = 4': lambda A: A.__setitem__((slice(0, 2), slice(0, 2)), 4),
       'A.rows = 2': lambda A: setattr(A, 'rows', 2), 'A.cols = 2': lambda A: setattr(A, 'cols', 2)}
for name, op in ops.items():
    for k in range(1, 80):
        A = mp.matrix([[2, 1, 3], [1, 5, 7], [4, 1, 9]])
        mp.LU_decomp(A)                       # caches the factors in A._LU
        if not aborted(lambda: op(A), k): break
        got, exp = lu(A), lu(mp.matrix(A.tolist()))    # the same entries without history
        if got != exp: bad.append((name, k, A.tolist(), got, exp))
for b in bad[:3]:
    print("%s aborted at setter line #%d leaves A = %s\n  LU_decomp(A) = %s\n  expected     = %s" % b)
print("stale LU factors after an aborted mutation: %d injection points" % len(bad))
sys.exit(1 if bad else 0)
