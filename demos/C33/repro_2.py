import sys, os; sys.path.insert(0, os.getcwd())
# C33: mp.memoize returns "+cvalue" on a cache hit, so the second identical call of a
# memoized function that returns a tuple/list/str/None raises TypeError, although the
# first call (and a fresh process) returns normally: the result depends on call history.
from mpmath import mp
mp.prec = 53
f = mp.memoize(lambda x: (mp.sin(x), mp.cos(x)))
first = f(1)
print("input: f = mp.memoize(lambda x: (sin(x), cos(x))); f(1) twice at prec 53")
print("first call :", first)
try:
    second = f(1)
    print("second call:", second)
    bad = (second != first)
except Exception as e:
    print("second call: raised %s: %s   (expected: the same tuple as the first call)" % (type(e).__name__, e))
    bad = True
sys.exit(1 if bad else 0)
