import sys, os; sys.path.insert(0, os.getcwd())
from mpmath import mp, fp, mpf
mp.prec = 53
TOL = 2.0**-48
def rel(v, ref):
    with mp.workprec(300):
        return float(abs(mp.convert(v) - ref) / abs(ref))
def ref(name, *a):
    with mp.workprec(300):
        return getattr(mp, name)(*[mp.convert(x) for x in a])
bad = 0
# sinpi/cospi return None (or raise TypeError) for |Re x| >= 2**1023
for name, x in [('sinpi', 1e308), ('cospi', 1e308), ('cospi', 2.0**1023), ('sinpi', complex(1e308, 0.5))]:
    v = getattr(fp, name)(x)
    print('fp.%s(%r) = %r   expected (mp) %s' % (name, x, v, getattr(mp, name)(x)))
    if type(v) not in (float, complex): bad = 1
try:
    v = fp.sinpi(-1e308); print('fp.sinpi(-1e308) =', v)
except TypeError as e:
    print('fp.sinpi(-1e308) raises TypeError:', e, '  expected (mp)', mp.sinpi(-1e308)); bad = 1
sys.exit(bad)
