import sys, os; sys.path.insert(0, os.getcwd())
from mpmath import mp, fp, mpf
mp.prec = 53
TOL = 2.0**-48
def rel(v, ref):
    with mp.workprec(300):
        return float(abs(mp.convert(v) - ref) / abs(ref))
def ref(name, *a):
    with mp.workprec(300):
        return getattr(mp, name)(*[mp.convert(x) for x in a])
bad = 0
# cbrt is computed as x**(1./3) with the rounded exponent 0.333...: error ~ |ln x| * 1.85e-17
for x in [1e300, 1e-300, 1e150, 1e100, -1e300, complex(3e200, 4e200)]:
    v = fp.cbrt(x); r = ref('cbrt', x); e = rel(v, r)
    print('fp.cbrt(%r) = %r  expected %s  rel.err %.3g = %.3g * 2^-48' % (x, v, mp.nstr(r, 17), e, e / TOL))
    if e > TOL: bad = 1
sys.exit(bad)
