# elementary fp functions outside the list of the statement: expm1, log1p (no extra precision in fp: fadd ignores prec,
# sum_accurately is a plain sum), root (rounded exponent 1/n), expjpi (pi*x rounded)
import sys, os; sys.path.insert(0, os.getcwd())
from mpmath import mp, fp, mpf
cases = [('expm1', (1e-10,)), ('expm1', (-0.0032687064951091734,)), ('log1p', (-1.3504126160540717e-16,)),
         ('log1p', (0.00015387012823811483,)), ('root', (1e300, 3)), ('root', (1e300+1e300j, 5)), ('expjpi', (1000001.5,))]
tol = mpf(2)**-48; bad = 0
for name, args in cases:
    got = getattr(fp, name)(*args)
    mp.prec = 53; m53 = getattr(mp, name)(*args)
    e_mp = abs(mp.convert(got) - m53)/abs(m53)
    flag = e_mp > tol
    bad += flag
    print("fp.%s%r\n   observed %r\n   expected %s\n   rel.err vs mp53 = %s  %s" % (name, args, got, mp.nstr(m53, 17), mp.nstr(e_mp, 3),
          "VIOLATION (> 2^-48)" if flag else "ok"))
sys.exit(1 if bad else 0)
