# fp.power(complex, negative integer): nan+nanj where the true value underflows to 0 (Python c_powi: 1/(z**n), z**n overflows)
import sys, os, cmath; sys.path.insert(0, os.getcwd())
from mpmath import mp, fp, mpf
cases = [(201797+0j, -74.0), (52918.5-170001j, -85.0), (1e200+1e200j, -2), (3e100+1j, -4)]
bad = 0
for x, y in cases:
    got = fp.power(x, y)
    mp.prec = 53; m53 = mp.power(x, y)
    flag = cmath.isnan(got) or abs(mp.convert(got) - m53) > mpf(2)**-300
    bad += flag
    print("fp.power(%r, %r)\n   observed %r\n   expected 0 within 2^-300 (mp: %s)  %s" % (x, y, got, mp.nstr(m53, 10),
          "VIOLATION" if flag else "ok"))
print("for comparison fp.power(201797.0, -74.0) =", fp.power(201797.0, -74.0))
sys.exit(1 if bad else 0)
