# fp.sinpi / fp.cospi of a complex number with |Im z| > ~10: pi*Im(z) is rounded before cmath.sin/cos -> rel. error ~ pi*|y|*2^-53
import sys, os; sys.path.insert(0, os.getcwd())
from mpmath import mp, fp, mpf
cases = [('sinpi', 7-141j), ('sinpi', 0.25+226j), ('cospi', 254372-35.52831291511356j),
         ('cospi', 0.9998810497470733-193j), ('sinpi', -1.000060383711514-60j), ('sincpi', -96j)]
tol = mpf(2)**-48; bad = 0
for name, z in cases:
    got = getattr(fp, name)(z)
    mp.prec = 53; m53 = getattr(mp, name)(z)
    mp.prec = 400; truth = getattr(mp, name)(mp.convert(z)); g = mp.convert(got)
    e_truth = abs(g - truth)/abs(truth); e_mp = abs(g - m53)/abs(m53)
    mp.prec = 53
    flag = e_mp > tol and e_truth > tol
    bad += flag
    print("fp.%s(%r)\n   observed %r\n   expected %s\n   rel.err vs mp53 = %s, vs exact = %s  %s" % (name, z, got,
          mp.nstr(truth, 17), mp.nstr(e_mp, 3), mp.nstr(e_truth, 3), "VIOLATION (> 2^-48)" if flag else "ok"))
sys.exit(1 if bad else 0)
