# fp raises ValueError at the logarithmic singularities where mp returns a signed infinity
import sys, os; sys.path.insert(0, os.getcwd())
from mpmath import mp, fp, mpf, mpc
mp.prec = 53
REL = 2.0**-48; ABS = mpf(2)**-300
def relerr(a, b):
    d = abs(mpc(a) - mpc(b))
    return 0.0 if d <= ABS else float(d/abs(b))
def hi(name, *args):
    mp.prec = 300
    try: return getattr(mp, name)(*args)
    finally: mp.prec = 53
bad = 0

for name, args in [('log', (0.0,)), ('log', (0j,)), ('atanh', (1.0,)), ('atanh', (-1.0,)), ('atanh', (1+0j,)),
                   ('atan', (1j,)), ('atan', (-1j,)), ('power', (0.0, 1j))]:
    b = getattr(mp, name)(*args)
    try: a = repr(getattr(fp, name)(*args)); ok = True
    except Exception as e: a = 'raised %s: %s' % (type(e).__name__, e); ok = False
    print('%s%r  fp: %s   mp: %r' % (name, args, a, b))
    if not ok: bad += 1
print('violations:', bad)
sys.exit(1 if bad else 0)
