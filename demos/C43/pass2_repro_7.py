# mp (53 bits) acosh/acos next to the branch point 1, and acosh just below the imaginary axis origin
import sys, os; sys.path.insert(0, os.getcwd())
from mpmath import mp, fp, mpf, mpc
mp.prec = 53
REL = 2.0**-48; ABS = mpf(2)**-300
def relerr(a, b):
    d = abs(mpc(a) - mpc(b))
    return 0.0 if d <= ABS else float(d/abs(b))
def hi(name, *args):
    mp.prec = 300
    try: return getattr(mp, name)(*args)
    finally: mp.prec = 53
bad = 0

cases = [('acosh', 1.0000000000000002), ('acos', 1.0000000000000002), ('acosh', 1.0000000000000124),
         ('acos', complex(0.9999999999999967, 5.912296915232405e-12)), ('acos', complex(1, -1.801063279160134e-117)),
         ('acosh', complex(1, -9.60178359030724e-61)), ('acosh', complex(0, -1e-20))]
for name, z in cases:
    a = getattr(fp, name)(z); b = getattr(mp, name)(z)
    r = relerr(a, b)
    print('%s(%r)\n  fp  = %r\n  mp53= %r\n  rel diff = %.3g' % (name, z, a, complex(b), r))
    if r > REL: bad += 1
print('(true values: acosh(1+2^-52) = 2.1073424255447017e-08; acosh(-1e-20j) = 1e-20 - 1.5707963267948966j)')
print('violations:', bad)
sys.exit(1 if bad else 0)
