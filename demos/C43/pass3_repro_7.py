# Debatable group: signed zero in fp.arg/fp.atan2; log with base 0 raises; sinpi/cospi return inf silently
import sys, os; sys.path.insert(0, os.getcwd())
from mpmath import mp, fp, mpf, mpc
mp.prec = 53
bad = 0
def case(label, f, g):
    global bad
    try: v = f()
    except Exception as e: v = repr(e)
    m = g()
    same = not isinstance(v, str) and not isinstance(m, str) and mp.isfinite(mpc(v)) and abs(mpc(v) - mpc(m)) <= 1e-14
    print('%-34s fp = %-45s mp = %s %s' % (label, v, m, '' if same else '  <-- differs'))
    if not same: bad += 1
case('arg(complex(-1,-0.0))', lambda: fp.arg(complex(-1, -0.0)), lambda: mp.arg(mpc(-1, -0.0)))
case('atan2(-0.0, -1.0)', lambda: fp.atan2(-0.0, -1.0), lambda: mp.atan2(-0.0, -1.0))
case('log(-1-0j) (repaired, agrees)', lambda: fp.log(complex(-1, -0.0)), lambda: mp.log(mpc(-1, -0.0)))
case('log(5.0, 0.0)', lambda: fp.log(5.0, 0.0), lambda: mp.log(5.0, 0.0))
case('log(-3.0, -0.0)', lambda: fp.log(-3.0, -0.0), lambda: mp.log(-3.0, -0.0))
case('sinpi(0.25+1e308j) [no exception]', lambda: fp.sinpi(complex(0.25, 1e308)), lambda: mp.nstr(mp.sinpi(mpc(0.25, 20.0)), 5) + ' [at Im=20; finite, not a double, at Im=1e308; fp raises OverflowError at Im=5e307]')
case('power(8e-279+0j, -5.0)', lambda: fp.power(complex(8e-279, 0), -5.0), lambda: mp.power(mpc(8e-279, 0), -5))
sys.exit(1 if bad else 0)
