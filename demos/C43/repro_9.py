import sys, os; sys.path.insert(0, os.getcwd())
from mpmath import mp, fp, mpf
mp.prec = 53
TOL = 2.0**-48
def rel(v, ref):
    with mp.workprec(300):
        return float(abs(mp.convert(v) - ref) / abs(ref))
def ref(name, *a):
    with mp.workprec(300):
        return getattr(mp, name)(*[mp.convert(x) for x in a])
bad = 0
# fp has no asinh/acosh/atanh, and fp.asech/acsch/acoth (which exist) raise AttributeError for every argument
for name in ['asinh', 'acosh', 'atanh', 'asech', 'acsch', 'acoth']:
    try:
        v = getattr(fp, name)(0.5)
    except AttributeError as e:
        v = 'AttributeError: %s' % e; bad = 1
    print('fp.%s(0.5) -> %s   expected (mp) %s' % (name, v, getattr(mp, name)(0.5)))
sys.exit(bad)
