# fp.log1p / fp.expm1 cancel: log(1+x) and exp(x)-1 are formed in plain double (fadd(prec=...) and sum_accurately are no-ops in fp)
import sys, os; sys.path.insert(0, os.getcwd())
from mpmath import mp, fp, mpf, mpc
mp.prec = 53
bad = 0
for name, x in [('log1p', 1e-10), ('expm1', 1e-10), ('log1p', 1e-5), ('expm1', 1e-5), ('log1p', 0.001), ('expm1', 1e-5j)]:
    v = getattr(fp, name)(x)
    m = getattr(mp, name)(mpc(x) if isinstance(x, complex) else mpf(x))
    rel = float(abs(mpc(v) - m)/abs(m))
    print('%s(%r): fp = %s   mp(53) = %s   rel.err = %.3g (limit %.3g)' % (name, x, v, m, rel, 2.0**-48))
    if rel > 2.0**-48: bad += 1
sys.exit(1 if bad else 0)
