# fp.asec / acsc / asech / acoth near |x| = 1: f(1/x) with f' singular at 1 loses up to half the digits
import sys
from mpmath import fp, mp, mpf
mp.prec = 300
bad = 0
for f, x in (('asec', 1.0000000066093615), ('acsc', 1.0000000066093615),
             ('asech', 0.9999999933906385), ('acoth', 1.0000000066093615)):
    a = getattr(fp, f)(x); b = getattr(mp, f)(mpf(x))
    err = float(abs(mp.mpmathify(a) - b) / abs(b))
    print("fp.%s(%r) = %r  expected %s  rel.err %.3g  (bound 2^-48 = %.3g)" % (f, x, a, mp.nstr(b, 17), err, 2.0**-48))
    bad += err > 2.0**-48
sys.exit(1 if bad else 0)
