import sys, os; sys.path.insert(0, os.getcwd())
from mpmath import mp, fp, mpf
mp.prec = 53
TOL = 2.0**-48
def rel(v, ref):
    with mp.workprec(300):
        return float(abs(mp.convert(v) - ref) / abs(ref))
def ref(name, *a):
    with mp.workprec(300):
        return getattr(mp, name)(*[mp.convert(x) for x in a])
bad = 0
# DEBATABLE group: poles/overflow raise instead of following mp; floor/ceil return int
def call(f, *a):
    try: return repr(f(*a))
    except Exception as e: return '%s(%s)' % (type(e).__name__, e)
for name, a in [('log', (0.0,)), ('log', (0j,)), ('atan', (1j,)), ('exp', (710.0,)), ('cosh', (711.0,)),
                ('power', (10.0, 400.0)), ('power', (0.0, 1j)), ('floor', (2.5,)), ('ceil', (2.5,))]:
    v = call(getattr(fp, name), *a); m = call(getattr(mp, name), *a)
    print('fp.%s%r -> %s   mp -> %s' % (name, a, v, m))
    if 'Error' in v and 'Error' not in m: bad = 1
    if name in ('floor', 'ceil') and type(getattr(fp, name)(*a)) is int: bad = 1
sys.exit(bad)
