# fp.degrees / fp.radians raise AttributeError for every argument (FPContext has no constant 'degree')
import sys, os; sys.path.insert(0, os.getcwd())
from mpmath import mp, fp, mpf
mp.prec = 53
bad = 0
for name, x in [('degrees', 1.0), ('radians', 180.0), ('degrees', 0.0)]:
    try: v = getattr(fp, name)(x)
    except Exception as e: v = repr(e); bad += 1
    print('fp.%s(%r) = %s   expected (mp) = %s' % (name, x, v, getattr(mp, name)(x)))
print("hasattr(fp, 'degree') =", hasattr(fp, 'degree'))
sys.exit(1 if bad else 0)
