import sys, os; sys.path.insert(0, os.getcwd())
from mpmath import mp, fp, mpf
mp.prec = 53
TOL = 2.0**-48
def rel(v, ref):
    with mp.workprec(300):
        return float(abs(mp.convert(v) - ref) / abs(ref))
def ref(name, *a):
    with mp.workprec(300):
        return getattr(mp, name)(*[mp.convert(x) for x in a])
bad = 0
# power with complex exponent: spurious OverflowError / silent nan although the result is an ordinary double
for x, y in [(1+1j, 2100+400j), (1+1j, -2200-1000j)]:
    r = ref('power', x, y)
    try:
        v = fp.power(x, y)
    except OverflowError as e:
        v = 'OverflowError(%s)' % e
    print('fp.power(%r, %r) = %s   expected %s' % (x, y, v, mp.nstr(r, 17)))
    if isinstance(v, str) or v != v or rel(v, r) > TOL: bad = 1
sys.exit(bad)
