# finite arguments at logarithmic singularities: mp returns a signed infinity, fp raises ValueError
import sys, os; sys.path.insert(0, os.getcwd())
from mpmath import mp, fp
cases = [('log', (0.0,)), ('log', (0j,)), ('atanh', (1.0,)), ('atanh', (-1.0,)), ('atan', (1j,)), ('atan', (-1j,)),
         ('log', (2.0, 0.0)), ('acoth', (1.0,)), ('acot', (1j,))]
bad = 0
for name, args in cases:
    try: m = repr(getattr(mp, name)(*args))
    except Exception as e: m = "raises %r" % e
    try: got = repr(getattr(fp, name)(*args)); flag = False
    except Exception as e: got = "raises %r" % e; flag = not m.startswith("raises")
    bad += flag
    print("%s%r\n   fp: %s\n   mp: %s  %s" % (name, args, got, m, "MISMATCH" if flag else "ok"))
print("fp.power(0.0, 2+1j):", end=" ")
try: print(fp.power(0.0, 2+1j))
except Exception as e: print("raises %r" % e, " (mp: %r; true value 0)" % mp.power(0.0, 2+1j))
sys.exit(1 if bad else 0)
