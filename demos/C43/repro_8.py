import sys, os; sys.path.insert(0, os.getcwd())
from mpmath import mp, fp, mpf
mp.prec = 53
TOL = 2.0**-48
def rel(v, ref):
    with mp.workprec(300):
        return float(abs(mp.convert(v) - ref) / abs(ref))
def ref(name, *a):
    with mp.workprec(300):
        return getattr(mp, name)(*[mp.convert(x) for x in a])
bad = 0
# A negative-zero component selects the other side of the cut (mp has no signed zeros).
# acos/asin are normalised by math2._real_axis_cut; sqrt, log, cbrt, power, atan are not.
cases = [('sqrt', (-(0.25+0j),)), ('log', (-(2+0j),)), ('cbrt', (-(8+0j),)),
         ('power', (-(8+0j), 0.5)), ('atan', (complex(-0.0, 2.0),))]
for name, a in cases:
    v = getattr(fp, name)(*a); r = ref(name, *a); e = rel(v, r)
    print('fp.%s%r = %r   expected (mp) %s   rel.err %.3g' % (name, a, v, mp.nstr(r, 17), e))
    if e > TOL: bad = 1
print('control: fp.acos(complex(2,-0.0)) =', fp.acos(complex(2, -0.0)), ' mp:', mp.acos(2))
sys.exit(bad)
