# A -0.0 imaginary part on a branch cut: fp returns the conjugate of the mp value
# (handled for asin/acos/atanh/atan/asinh by _real_axis_cut/_imag_axis_cut, not for these)
import sys, os; sys.path.insert(0, os.getcwd())
from mpmath import mp, fp, mpf, mpc
mp.prec = 53
REL = 2.0**-48; ABS = mpf(2)**-300
def relerr(a, b):
    d = abs(mpc(a) - mpc(b))
    return 0.0 if d <= ABS else float(d/abs(b))
def hi(name, *args):
    mp.prec = 300
    try: return getattr(mp, name)(*args)
    finally: mp.prec = 53
bad = 0

z = -(4+0j)          # == complex(-4.0, -0.0)
cases = [('sqrt', (z,)), ('log', (z,)), ('acosh', (z,)), ('acosh', (complex(0.5, -0.0),)), ('cbrt', (z,)),
         ('power', (z, 0.5)), ('power', (z, 1j)), ('log', (z, 2))]
for name, args in cases:
    a = getattr(fp, name)(*args); b = getattr(mp, name)(*args)
    r = relerr(a, b)
    print('%s%r  fp = %r   mp = %r   rel diff = %.3g' % (name, args, a, complex(b), r))
    if r > REL: bad += 1
print('violations:', bad)
sys.exit(1 if bad else 0)
