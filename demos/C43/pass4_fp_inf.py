import sys, os; sys.path.insert(0, os.getcwd())
# fp context: special values and perfect powers
from mpmath import fp, mp
inf = float('inf')
bad = 0
def chk(label, got, want):
    global bad
    ok = (got == want)
    print("%-28s = %-28r expected %r  %s" % (label, got, want, "" if ok else "<-- VIOLATION"))
    if not ok: bad = 1
def val(f, *a):
    try: return f(*a)
    except Exception as e: return "%s(%s)" % (type(e).__name__, e)
chk("fp.sinpi(inf) is nan", val(fp.sinpi, inf) != val(fp.sinpi, inf), True)   # mp.sinpi(inf) = nan
chk("fp.cospi(inf) is nan", val(fp.cospi, inf) != val(fp.cospi, inf), True)   # mp.cospi(inf) = nan
chk("fp.cbrt(inf)", val(fp.cbrt, inf), inf)
chk("fp.root(125, 3)", val(fp.root, 125, 3), 5.0)
chk("fp.root(10**6, 6)", val(fp.root, 10**6, 6), 10.0)
chk("fp.log10(1000)", val(fp.log10, 1000), 3.0)
chk("fp.log(0)", val(fp.log, 0), -inf)
chk("fp.log1p(-1)", val(fp.log1p, -1), -inf)
chk("fp.atanh(1)", val(fp.atanh, 1), inf)
chk("fp.expjpi(1)", val(fp.expjpi, 1), -1)
print("mp for comparison:", mp.sinpi(mp.inf), mp.cospi(mp.inf), mp.cbrt(mp.inf), mp.root(125, 3), mp.log10(1000), mp.log(0), mp.log1p(-1), mp.atanh(1), mp.expjpi(1))
sys.exit(bad)
