import sys, os; sys.path.insert(0, os.getcwd())
from mpmath import mp, fp, mpf
mp.prec = 53
TOL = 2.0**-48
def rel(v, ref):
    with mp.workprec(300):
        return float(abs(mp.convert(v) - ref) / abs(ref))
def ref(name, *a):
    with mp.workprec(300):
        return getattr(mp, name)(*[mp.convert(x) for x in a])
bad = 0
# sinpi/cospi of complex arguments with moderately large imaginary part: error ~ |pi*Im z| * 2^-53
for name, z in [('sinpi', complex(0.25, 30.0)), ('cospi', complex(0.25, 100.3)), ('sinpi', complex(0.25, 226.0))]:
    v = getattr(fp, name)(z); r = ref(name, z); e = rel(v, r)
    print('fp.%s(%r) = %r\n   expected %s  normwise rel.err %.3g = %.3g * 2^-48' % (name, z, v, mp.nstr(r, 17), e, e / TOL))
    if e > TOL: bad = 1
sys.exit(bad)
