# representable results lost to intermediate overflow in Python's complex pow: OverflowError from hypot(|z| > max double)
# in fp.cbrt/fp.power/fp.root, nan from pow(|x|, Re y) / exp(arg(x) Im y) in fp.power
import sys, os; sys.path.insert(0, os.getcwd())
from mpmath import mp, fp, mpf
big = sys.float_info.max
cases = [('cbrt', (complex(big, big),)), ('cbrt', (complex(1.5e308, 1.5e308),)), ('cbrt', (complex(1.7e308, -1e308),)),
         ('power', (complex(1.5e308, 1.5e308), 0.5)), ('root', (complex(-1.5e308, 1.5e308), 3)),
         ('power', (-2.0, 2000+300j)), ('power', (-2.0, -1100-400j))]
bad = 0
for name, args in cases:
    mp.prec = 53; m53 = getattr(mp, name)(*args)
    try:
        got = getattr(fp, name)(*args)
        flag = not (abs(mp.convert(got) - m53) <= abs(m53)*mpf(2)**-48)
    except Exception as e:
        got = "raises %r" % e; flag = True
    bad += flag
    print("fp.%s%r\n   observed %s\n   expected %s (representable)  %s" % (name, args, got, mp.nstr(m53, 17),
          "VIOLATION" if flag else "ok"))
print("for comparison fp.sqrt(1.5e308+1.5e308j) =", fp.sqrt(complex(1.5e308, 1.5e308)))
sys.exit(1 if bad else 0)
