# finite double arguments for which fp raises OverflowError while mp returns a (large) finite value
import sys, os; sys.path.insert(0, os.getcwd())
from mpmath import mp, fp, mpf, mpc
mp.prec = 53
REL = 2.0**-48; ABS = mpf(2)**-300
def relerr(a, b):
    d = abs(mpc(a) - mpc(b))
    return 0.0 if d <= ABS else float(d/abs(b))
def hi(name, *args):
    mp.prec = 300
    try: return getattr(mp, name)(*args)
    finally: mp.prec = 53
bad = 0

for name, args in [('exp', (710.0,)), ('cosh', (711.0,)), ('sinh', (-711.0,)), ('power', (10.0, 400.0)), ('exp', (710+1j,)),
                   ('cos', (711j,)), ('sinpi', (227j,)), ('power', (1+1j, 1000000.5))]:
    b = getattr(mp, name)(*args)
    try: a = repr(getattr(fp, name)(*args)); ok = True
    except Exception as e: a = 'raised %s: %s' % (type(e).__name__, e); ok = False
    print('%s%r  fp: %s   mp: %s' % (name, args, a, mp.nstr(b, 8)))
    if not ok: bad += 1
print('violations:', bad)
sys.exit(1 if bad else 0)
