# fp.acoth/acsc/asech/acsch/acot/asec near their branch points: 1/z is rounded to 53 bits before atanh/asin/acosh/asinh/atan/acos
import sys, os; sys.path.insert(0, os.getcwd())
from mpmath import mp, fp, mpf
cases = [('acoth', 0.9999999999887125), ('acoth', -0.999999999999646), ('acsc', 0.9999999999977943),
         ('asech', 0.9999999981190988), ('acsch', -5.860279284418339e-160+0.9999999999992063j),
         ('acot', -1.000000005705961j), ('asec', -0.9999999998493893)]
tol = mpf(2)**-48; bad = 0
for name, z in cases:
    got = getattr(fp, name)(z)
    mp.prec = 53; m53 = getattr(mp, name)(z)
    mp.prec = 400; truth = getattr(mp, name)(mp.convert(z)); g = mp.convert(got)
    e_truth = abs(g - truth)/abs(truth); e_mp = abs(g - m53)/abs(m53)
    mp.prec = 53
    flag = e_mp > tol and e_truth > tol
    bad += flag
    print("fp.%s(%r)\n   observed %r\n   mp at 53 bits %s   exact %s\n   rel.err vs mp53 = %s, vs exact = %s  %s" % (name, z, got,
          mp.nstr(m53, 17), mp.nstr(truth, 17), mp.nstr(e_mp, 3), mp.nstr(e_truth, 3), "VIOLATION (> 2^-48)" if flag else "ok"))
sys.exit(1 if bad else 0)
