# mp (53 bits) asin/asinh/atan/atanh of SMALL COMPLEX-typed arguments are inaccurate -> fp and mp disagree
# (fp is the correct one; blame is in mp's complex inverse functions, cancellation in log(1+-z) forms)
import sys, os; sys.path.insert(0, os.getcwd())
from mpmath import mp, fp, mpf, mpc
mp.prec = 53
REL = 2.0**-48; ABS = mpf(2)**-300
def relerr(a, b):
    d = abs(mpc(a) - mpc(b))
    return 0.0 if d <= ABS else float(d/abs(b))
def hi(name, *args):
    mp.prec = 300
    try: return getattr(mp, name)(*args)
    finally: mp.prec = 53
bad = 0

cases = [('atanh', complex(1e-8, 0)), ('atanh', complex(1e-30, 0)), ('asinh', complex(1e-5, 0)), ('asinh', complex(1e-20, 0)),
         ('asin', complex(0, 1e-12)), ('asin', 2.380585793203345e-43j), ('atan', complex(1e-12, 1e-12)), ('atan', complex(0, 1e-30))]
for name, z in cases:
    a = getattr(fp, name)(z); b = getattr(mp, name)(z); t = hi(name, z)
    r = relerr(a, b) if b != 0 else float('inf')
    print('%s(%r)\n  fp  = %r\n  mp53= %r\n  rel diff = %.3g; fp vs 300-bit = %.3g' % (name, z, a, complex(b), r, relerr(a, t)))
    if r > REL: bad += 1
print('violations:', bad)
sys.exit(1 if bad else 0)
