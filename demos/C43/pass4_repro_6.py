# fp.asec/acsc/asech/acsch of a subnormal argument: 1/z overflows to inf, the result is infinite; mp gives ~ log(2/|z|) ~ 710..745
import sys, os, cmath; sys.path.insert(0, os.getcwd())
from mpmath import mp, fp, mpf
cases = [('asech', 3.735e-321), ('acsch', 1e-310), ('acsch', -2.4234e-320j), ('asec', 9.04e-322), ('acsc', -4.546e-320),
         ('asech', complex(2.7007819134875e-311, 0.0))]
bad = 0
for name, z in cases:
    mp.prec = 53; m53 = getattr(mp, name)(z)
    try:
        got = getattr(fp, name)(z)
        flag = not (abs(mp.convert(got) - m53) <= abs(m53)*mpf(2)**-48)
    except Exception as e:
        got = "raises %r" % e; flag = True
    bad += flag
    print("fp.%s(%r)\n   observed %s\n   expected %s  %s" % (name, z, got, mp.nstr(m53, 17), "VIOLATION" if flag else "ok"))
sys.exit(1 if bad else 0)
