# fp.asech/acsch/asec/acsc of subnormal arguments below 1/DBL_MAX return inf: 1/x overflows before acosh/asinh/acos/asin
import sys, os; sys.path.insert(0, os.getcwd())
from mpmath import mp, fp, mpf, mpc
mp.prec = 53
bad = 0
for name in ['asech', 'acsch', 'asec', 'acsc']:
    for x in [5e-324, 1e-310, -5.5e-309, complex(0.0, 1e-315)]:
        v = getattr(fp, name)(x)
        m = getattr(mp, name)(mpc(x) if isinstance(x, complex) else mpf(x))
        ok = mp.isfinite(mpc(v)) and abs(mpc(v) - m) <= 2.0**-48*abs(m)
        print('%s(%r): fp = %s   expected (mp, 53 bits) = %s   %s' % (name, x, v, m, 'ok' if ok else 'VIOLATION'))
        if not ok: bad += 1
sys.exit(1 if bad else 0)
