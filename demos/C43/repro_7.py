import sys, os; sys.path.insert(0, os.getcwd())
from mpmath import mp, fp, mpf
mp.prec = 53
TOL = 2.0**-48
def rel(v, ref):
    with mp.workprec(300):
        return float(abs(mp.convert(v) - ref) / abs(ref))
def ref(name, *a):
    with mp.workprec(300):
        return getattr(mp, name)(*[mp.convert(x) for x in a])
bad = 0
# atan on the branch cut below -i (real part +0.0, no negative zero involved): fp gives +pi/2, mp gives -pi/2
for z in [complex(0.0, -2.0), complex(0.0, -1.0000000000000002), complex(0.0, -1e300)]:
    v = fp.atan(z); r = ref('atan', z); e = rel(v, r)
    print('fp.atan(%r) = %r   expected (mp) %s   rel.err %.3g' % (z, v, mp.nstr(r, 17), e))
    if e > TOL: bad = 1
print('for comparison, upper cut agrees: fp.atan(2j) =', fp.atan(2j), ' mp:', mp.atan(2j))
sys.exit(bad)
