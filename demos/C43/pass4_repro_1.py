# fp.power with a negative/complex base and a large exponent: Python's complex pow loses |y*log x| ulps
import sys, os; sys.path.insert(0, os.getcwd())
from mpmath import mp, fp, mpf, mpc
cases = [(-1.0, 1e15+0.5), (-2.0, 1000.5), (-0.941230369468228, -253.0440689219412),
         (1+1e-8j, 1e9), (1j, 2.0**60), (1.1927825568210615-1.3186747560391368j, 102.0),
         (2.0, 300+400j)]
tol = mpf(2)**-48; bad = 0
for x, y in cases:
    got = fp.power(x, y)
    mp.prec = 53; m53 = mp.power(x, y)
    mp.prec = 400; truth = mp.power(mp.convert(x), mp.convert(y)); g = mp.convert(got)
    e_truth = abs(g - truth)/abs(truth); e_mp = abs(g - m53)/abs(m53)
    mp.prec = 53
    flag = e_mp > tol and e_truth > tol
    bad += flag
    print("fp.power(%r, %r)\n   observed %r\n   expected %s  (mp at 53 bits; agrees with 400-bit value)\n"
          "   rel.err vs mp53 = %s, vs exact = %s  %s" % (x, y, got, mp.nstr(m53, 17),
          mp.nstr(e_mp, 3), mp.nstr(e_truth, 3), "VIOLATION (> 2^-48)" if flag else "ok"))
sys.exit(1 if bad else 0)
