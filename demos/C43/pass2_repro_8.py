# fp.floor / fp.ceil of a float return a Python int, not a float ("fp functions return Python float or complex")
import sys, os; sys.path.insert(0, os.getcwd())
from mpmath import mp, fp, mpf, mpc
mp.prec = 53
REL = 2.0**-48; ABS = mpf(2)**-300
def relerr(a, b):
    d = abs(mpc(a) - mpc(b))
    return 0.0 if d <= ABS else float(d/abs(b))
def hi(name, *args):
    mp.prec = 300
    try: return getattr(mp, name)(*args)
    finally: mp.prec = 53
bad = 0

for name, x in [('floor', 2.5), ('ceil', 2.5), ('floor', -0.5), ('floor', 1e300)]:
    a = getattr(fp, name)(x)
    print('fp.%s(%r) = %r of type %s   (mp: %r)' % (name, x, a if abs(a) < 1e20 else '<%d-digit int>' % len(str(a)), type(a).__name__, getattr(mp, name)(x)))
    if type(a) not in (float, complex): bad += 1
print('fp.floor(2.5+1.5j) =', repr(fp.floor(2.5+1.5j)))
print('violations:', bad)
sys.exit(1 if bad else 0)
