# fp.cbrt / fp.power raise OverflowError for finite complex doubles whose result is ~1e102..1e154
import sys, os; sys.path.insert(0, os.getcwd())
from mpmath import mp, fp, mpf, mpc
mp.prec = 53
REL = 2.0**-48; ABS = mpf(2)**-300
def relerr(a, b):
    d = abs(mpc(a) - mpc(b))
    return 0.0 if d <= ABS else float(d/abs(b))
def hi(name, *args):
    mp.prec = 300
    try: return getattr(mp, name)(*args)
    finally: mp.prec = 53
bad = 0

z = complex(1.3e308, 1.3e308)
for name, args in [('cbrt', (z,)), ('power', (z, 0.5)), ('power', (z, 1/3)), ('cbrt', (complex(-1.5e308, 1e308),))]:
    b = getattr(mp, name)(*args)
    try:
        a = getattr(fp, name)(*args); r = relerr(a, b)
    except Exception as e:
        a = 'raised %s: %s' % (type(e).__name__, e); r = float('inf')
    print('%s%r\n  fp = %s\n  mp = %r' % (name, args, a, complex(b)))
    if r > REL: bad += 1
print('fp.sqrt(z) works:', fp.sqrt(z))
print('violations:', bad)
sys.exit(1 if bad else 0)
