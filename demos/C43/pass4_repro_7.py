# fp.sech/csch/sec/csc where cosh/sinh/cos/sin overflow: OverflowError instead of the (underflowing) value 0 +- 2^-300
import sys, os; sys.path.insert(0, os.getcwd())
from mpmath import mp, fp, mpf
cases = [('sech', 711.0), ('csch', -711.0), ('sech', 1e10), ('sech', 800+1j), ('sec', 800j), ('csc', 1+800j), ('csch', -88481-0.9998361062986755j)]
bad = 0
for name, z in cases:
    mp.prec = 53; m53 = getattr(mp, name)(z)
    try:
        got = getattr(fp, name)(z)
        flag = not (abs(mp.convert(got) - m53) <= mpf(2)**-300)
    except Exception as e:
        got = "raises %r" % e; flag = True
    bad += flag
    print("fp.%s(%r)\n   observed %s\n   expected 0 within 2^-300 (mp: %s)  %s" % (name, z, got, mp.nstr(m53, 10), "VIOLATION" if flag else "ok"))
print("for comparison fp.coth(800.0) =", fp.coth(800.0), " fp.tanh(800.0) =", fp.tanh(800.0), " fp.exp(-800.0) =", fp.exp(-800.0))
sys.exit(1 if bad else 0)
