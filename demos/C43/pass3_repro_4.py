# fp.root / fp.nthroot (math2.nthroot) still have the two defects repaired in fp.cbrt:
# (a) x**(1./n) with the rounded exponent, (b) conjugate value for a -0.0 imaginary part on the cut
import sys, os; sys.path.insert(0, os.getcwd())
from mpmath import mp, fp, mpf, mpc
mp.prec = 53
bad = 0
for x, n in [(1e300, 3), (1e-300, 3), (1e300, 7), (2.0**1000, 10), (complex(-8, -0.0), 3), (complex(-4, -0.0), 2)]:
    v = fp.root(x, n)
    m = mp.root(mpc(x) if isinstance(x, complex) else mpf(x), n)
    rel = float(abs(mpc(v) - m)/abs(m))
    print('root(%r, %d): fp = %s   mp(53) = %s   rel.err = %.3g' % (x, n, v, m, rel))
    if rel > 2.0**-48: bad += 1
print('for comparison fp.cbrt(1e300) =', fp.cbrt(1e300), ' fp.cbrt(complex(-8,-0.0)) =', fp.cbrt(complex(-8, -0.0)))
sys.exit(1 if bad else 0)
