# fp.expjpi (defined in ctx_fp.py as exp(j*pi*x)) rounds pi*x: error ~ |pi*x|*2^-53, garbage for |x| >= 2^52
import sys, os; sys.path.insert(0, os.getcwd())
from mpmath import mp, fp, mpf, mpc
mp.prec = 53
bad = 0
for x in [20.25, 1000.125, 1e6, 1e15+0.5, 2.0**53]:
    v = fp.expjpi(x)
    m = mp.expjpi(mpf(x))
    mp.prec = 300; h = mp.expjpi(mpf(x)); mp.prec = 53
    rel = float(abs(mpc(v) - h)/abs(h))
    print('expjpi(%r): fp = %s   mp(53) = %s   rel.err = %.3g (limit %.3g)' % (x, v, m, rel, 2.0**-48))
    print('    (fp.cospi, fp.sinpi) of the same x =', (fp.cospi(x), fp.sinpi(x)))
    if rel > 2.0**-48: bad += 1
sys.exit(1 if bad else 0)
