# fp.asech of a large complex argument with Im z > 0 returns the conjugate of the mp value:
# Im(1/z) underflows to -0.0 and math2.acosh's _neg_axis_cut() overwrites that zero with +0.0.
import sys, os; sys.path.insert(0, os.getcwd())
import cmath
from mpmath import mp, fp, mpf, mpc
mp.prec = 53
bad = 0
for z in [1e200+1e50j, -1e200+1e50j, 7.301205141223863e+172+5.341205273155281e-290j, 1e160+1.0j]:
    v = fp.asech(z)
    m = mp.asech(mpc(z))
    mp.prec = 300; h = mp.asech(mpc(z)); mp.prec = 53
    rel = float(abs(mpc(v) - h)/abs(h))
    print('z =', z, ' 1/z =', 1.0/z)
    print('   fp.asech =', v, ' mp(53) =', m, ' mp(300) =', mp.nstr(h, 17), ' rel.err = %.3g' % rel)
    print('   cmath.acosh(1/z) (no cut normalisation) =', cmath.acosh(1.0/z))
    if rel > 2.0**-48: bad += 1
sys.exit(1 if bad else 0)
