import sys, os; sys.path.insert(0, os.getcwd())
from mpmath import mp, fp, mpf
mp.prec = 53
TOL = 2.0**-48
def rel(v, ref):
    with mp.workprec(300):
        return float(abs(mp.convert(v) - ref) / abs(ref))
def ref(name, *a):
    with mp.workprec(300):
        return getattr(mp, name)(*[mp.convert(x) for x in a])
# asec(x) = acos(1/x) with 1/x rounded to double: ill-conditioned near |x| = 1 (also for complex results, x slightly below 1)
for x in [1.0000007386688003, 1.0000000066093615, 1.001, 0.9976652113205065]:
    v = fp.asec(x); r = ref('asec', x); e = rel(v, r)
    print('fp.asec(%r) = %r  expected %s  rel.err %.3g = %.3g * 2^-48' % (x, v, mp.nstr(r, 17), e, e / TOL))
    if e > TOL: bad = 1
sys.exit(bad)
