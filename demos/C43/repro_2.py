import sys, os; sys.path.insert(0, os.getcwd())
from mpmath import mp, fp, mpf
mp.prec = 53
TOL = 2.0**-48
def rel(v, ref):
    with mp.workprec(300):
        return float(abs(mp.convert(v) - ref) / abs(ref))
def ref(name, *a):
    with mp.workprec(300):
        return getattr(mp, name)(*[mp.convert(x) for x in a])
bad = 0
# sinpi/cospi lose all relative accuracy near their zeros (real arguments)
for name, x in [('cospi', 0.499), ('sinpi', 0.999), ('cospi', 0.5 - 2.0**-54), ('sinpi', 2 - 2.0**-52), ('cospi', 2.499993316322862)]:
    v = getattr(fp, name)(x); r = ref(name, x); e = rel(v, r)
    print('fp.%s(%r) = %r  expected %s  rel.err %.3g = %.3g * 2^-48' % (name, x, v, mp.nstr(r, 17), e, e / TOL))
    if e > TOL and abs(v - r) > mpf(2)**-300: bad = 1
sys.exit(bad)
