import sys, os; sys.path.insert(0, os.getcwd())
from mpmath import mp, fp, mpf
mp.prec = 53
TOL = 2.0**-48
def rel(v, ref):
    with mp.workprec(300):
        return float(abs(mp.convert(v) - ref) / abs(ref))
def ref(name, *a):
    with mp.workprec(300):
        return getattr(mp, name)(*[mp.convert(x) for x in a])
bad = 0
# power: negative real base with non-integer exponent / complex base: error ~ |y*log x| * 2^-53
cases = [(-2.0, 20.5), (-7.0, 49.5), (-2.0, 1000.5), (-1.0, 1e15 + 0.5),
         (complex(1.1, 0.3), 98.0), (complex(-1.83, 0.2287), -48.97), (complex(1e200, 1e200), complex(1.5, 300))]
for x, y in cases:
    v = fp.power(x, y); r = ref('power', x, y); e = rel(v, r)
    print('fp.power(%r, %r) = %r\n   expected %s  normwise rel.err %.3g = %.3g * 2^-48' % (x, y, v, mp.nstr(r, 17), e, e / TOL))
    if e > TOL: bad = 1
sys.exit(bad)
