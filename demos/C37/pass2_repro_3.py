# C37 violation 3 (known since the first hunt, still present): exp/sinh/tanh/cos/sin are not
# bit-identical across backends (EXP_COSH_CUTOFF 600 vs 400, COS_SIN_CACHE_PREC 400 vs 200,
# isqrt_fast approximate vs exact), including wrong-side directed roundings on one backend.
import sys, os; sys.path.insert(0, os.path.dirname(os.path.abspath(__file__))); sys.path.insert(0, os.getcwd())
os.environ['MPMATH_NOGMPY'] = '1'
from _two import both
from mpmath import mp, mpf, sinh, tanh, exp
from mpmath.libmp import mpf_pos
cases = [("mpf_cosh_sinh(%r, %d, %r)[1]", sinh, (0, 1025, -201, 11), 294, 'c'),
         ("mpf_cosh_sinh(%r, %d, %r)[1]", sinh, (1, 1023, -133, 10), 401, 'd'),
         ("mpf_tanh(%r, %d, %r)", tanh, (0, 7, -153, 3), 272, 'd'),
         ("mpf_exp(%r, %d, %r)", exp, (0, 16777185, -130, 24), 412, 'f')]
bad = 0
for expr, f, x, prec, rnd in cases:
    py, gm = both(expr % (x, prec, rnd))
    mp.prec = 10 * prec
    expected = repr(mpf_pos(f(mpf(x))._mpf_, prec, rnd))   # correctly rounded value
    print(expr % (x, prec, rnd))
    for name, v in (('python', py), ('gmpy', gm), ('correctly rounded', expected)):
        print("   %-18s: %s" % (name, v if len(v) < 100 else v[:45] + '...' + v[-45:]))
    if py != gm: bad += 1
print("backend divergences:", bad, "of", len(cases))
sys.exit(1 if bad else 0)
