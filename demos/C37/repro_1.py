# C37 violation 1: libintmath.numeral(n, base, size) differs between backends
# (numeral_python pads with leading zeros when size >= 250 overestimates; gmpy.digits does not)
import sys; sys.path.insert(0, '/tmp/hunt/C37')
from _two import both
bad = 0
for n, base, size in [(124, 16, 2000), (1180591620717411303425, 10, 2000), (-9779473918088748550, 3, 250), (719, 3, 251)]:
    py, gm = both("libintmath.numeral(%d, %d, %d)" % (n, base, size))
    digs = '0123456789abcdefghijklmnopqrstuvwxyz'
    m, s = abs(n), ''
    while m: m, d = divmod(m, base); s = digs[d] + s
    expected = repr(('-' if n < 0 else '') + s)          # independent oracle
    print("numeral(%d, base=%d, size=%d)" % (n, base, size))
    print("   python backend :", py if len(py) < 90 else py[:40] + '...' + py[-40:], '(len %d)' % (len(py) - 2))
    print("   gmpy backend   :", gm)
    print("   expected       :", expected)
    if py != gm or py != expected or gm != expected: bad += 1
print("violations:", bad)
sys.exit(1 if bad else 0)
