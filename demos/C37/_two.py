"""Helper: evaluate an expression in two fresh processes (cwd = worktree), one per backend.
Real gmpy2 is used when importable, otherwise the stand-in in ./shim."""
import subprocess, sys, os
HERE = os.path.dirname(os.path.abspath(__file__))
PRE = ("import sys, os; sys.path.insert(0, os.getcwd())\n"
       "try: import gmpy2\n"
       "except ImportError: sys.path.insert(1, %r)\n"
       "from mpmath import libmp; from mpmath.libmp import *\n"
       "from mpmath.libmp import libintmath, libelefun\n"
       "C = lambda x: tuple(C(t) for t in x) if isinstance(x, tuple) else (int(x) if type(x).__name__ == 'mpz' else x)\n"
       % os.path.join(HERE, 'shim'))
def both(expr):
    out = []
    for env in ({'MPMATH_NOGMPY': '1'}, {'C37_SHIM_NORMALIZE': '1'}):
        e = dict(os.environ, PYTHONDONTWRITEBYTECODE='1'); e.pop('MPMATH_NOGMPY', None); e.update(env)
        code = PRE + "print(libmp.BACKEND)\ntry: print(repr(C(%s)))\nexcept Exception as ex: print('EXC:' + type(ex).__name__)" % expr
        r = subprocess.run([sys.executable, '-c', code], cwd=os.getcwd(), env=e, capture_output=True, text=True)
        b, v = r.stdout.strip().split('\n') if r.returncode == 0 else ('?', 'ERR:' + r.stderr.strip().split('\n')[-1])
        out.append((b, v))
    assert out[0][0] == 'python' and out[1][0] == 'gmpy', out
    return out[0][1], out[1][1]
