# C37 violation 2: libintmath.numeral() - the gmpy variant ignores the `digits` alphabet and
# accepts bases 37..62, the python variant uses `digits` and fails beyond its 36 characters.
import sys, os; sys.path.insert(0, os.path.dirname(os.path.abspath(__file__)))
from _two import both
bad = 0
for expr, expected in [("libintmath.numeral(255, 16, 0, 'ABCDEFGHIJKLMNOP')", "'PP' (digits alphabet honoured)"),
                       ("libintmath.numeral(-3054, 16, 0, 'ABCDEFGHIJKLMNOP')", "'-LOO'"),
                       ("libintmath.numeral(61, 62)", "same outcome on both backends")]:
    py, gm = both(expr)
    print("%-56s python: %-16s gmpy: %-8s expected: %s" % (expr, py, gm, expected))
    if py != gm: bad += 1
print("backend divergences:", bad)
sys.exit(1 if bad else 0)
