# C37 violation 4 (known since the first hunt, still present): libintmath integer helpers
#  (a) isqrt_fast / sqrt_fixed: python result can exceed floor(sqrt(x)); gmpy is exact
#  (b) bitcount(n) for n < 0: python gives 0, gmpy the bit length of |n| (root of violation 1)
import sys, os, math; sys.path.insert(0, os.path.dirname(os.path.abspath(__file__)))
from _two import both
bad = 0
for expr, expected in [("libintmath.isqrt_fast(2**60-4)", math.isqrt(2**60 - 4)),
                       ("libintmath.isqrt_fast(2**64-2)", math.isqrt(2**64 - 2)),
                       ("libintmath.sqrt_fixed(2**53-1, 87)", math.isqrt((2**53 - 1) << 87)),
                       ("libintmath.bitcount(-3)", None), ("libintmath.bitcount(-2**400)", None)]:
    py, gm = both(expr)
    print("%-38s python: %s   gmpy: %s   exact floor: %s" % (expr, py, gm, expected))
    if py != gm: bad += 1
print("backend divergences:", bad)
sys.exit(1 if bad else 0)
