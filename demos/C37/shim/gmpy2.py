"""Pure-Python stand-in for gmpy2 (gmpy2 is not installable here: no network).

Only documented gmpy2 semantics are modelled:
  * mpz is NOT a subclass of int; int <op> mpz and mpz <op> int give mpz
  * floor semantics of //, %, divmod, >> ; two's complement &,|,^,~
  * mpz <op> float gives a float-like (gmpy2: mpfr with 53 bits)  -> float here
  * mpz / mpz true division -> float here (gmpy2: mpfr, 53 bits, RNE)
  * hash(mpz(n)) == hash(n); mpz has __index__, __int__, __float__
  * repr is 'mpz(n)', str is 'n'
  * module functions: version, bit_length, isqrt, isqrt_rem, digits, fac, fib,
    bit_scan1 (method), num_digits, is_square ...
  * _mpmath_normalize / _mpmath_create transcribed from gmpy2/src/gmpy_mpmath.c
    (present only when env C37_SHIM_NORMALIZE=1, so that both the
    "python normalize on mpz" and the "C normalize" configurations are covered)
"""
import math as _math
import os as _os
import sys as _sys


def version():
    return '2.1.5'


def _v(x):
    if type(x) is mpz:
        return x._v
    return x


class mpz(object):
    __slots__ = ('_v',)

    def __init__(self, x=0, base=None):
        if type(x) is mpz:
            self._v = x._v
        elif isinstance(x, str):
            self._v = _bigint(x, base if base is not None else 10)
        elif isinstance(x, float):
            self._v = int(x)
        elif isinstance(x, int):
            self._v = int(x)
        else:
            self._v = int(x)

    # conversions
    def __int__(self): return self._v
    def __index__(self): return self._v
    def __float__(self): return float(self._v)
    def __bool__(self): return self._v != 0
    def __hash__(self): return hash(self._v)
    def __repr__(self): return 'mpz(%s)' % _bigstr(self._v)
    def __str__(self): return _bigstr(self._v)
    def __format__(self, spec): return format(self._v, spec)
    def __reduce__(self): return (mpz, (self._v,))

    # comparisons
    def _cmpval(self, o):
        if type(o) is mpz: return o._v
        if isinstance(o, (int, float)): return o
        return NotImplemented
    def __eq__(self, o):
        o = self._cmpval(o)
        if o is NotImplemented: return NotImplemented
        return self._v == o
    def __ne__(self, o):
        o = self._cmpval(o)
        if o is NotImplemented: return NotImplemented
        return self._v != o
    def __lt__(self, o):
        o = self._cmpval(o)
        if o is NotImplemented: return NotImplemented
        return self._v < o
    def __le__(self, o):
        o = self._cmpval(o)
        if o is NotImplemented: return NotImplemented
        return self._v <= o
    def __gt__(self, o):
        o = self._cmpval(o)
        if o is NotImplemented: return NotImplemented
        return self._v > o
    def __ge__(self, o):
        o = self._cmpval(o)
        if o is NotImplemented: return NotImplemented
        return self._v >= o

    # unary
    def __neg__(self): return mpz(-self._v)
    def __pos__(self): return self
    def __abs__(self): return mpz(abs(self._v))
    def __invert__(self): return mpz(~self._v)

    # methods
    def bit_length(self): return abs(self._v).bit_length()
    def bit_scan1(self, n=0):
        v = self._v >> n
        if v == 0: return None
        return n + ((v & -v).bit_length() - 1)
    def bit_test(self, n): return bool((self._v >> n) & 1)
    def num_digits(self, base=10):
        return len(digits(abs(self._v), base))
    def digits(self, base=10): return digits(self._v, base)
    def is_square(self):
        return self._v >= 0 and _math.isqrt(self._v)**2 == self._v
    def is_even(self): return not (self._v & 1)
    def is_odd(self): return bool(self._v & 1)
    @property
    def numerator(self): return self
    @property
    def denominator(self): return mpz(1)
    @property
    def real(self): return self
    @property
    def imag(self): return mpz(0)


def _binop(name, intres=True):
    def f(self, o):
        if type(o) is mpz:
            o = o._v
        elif isinstance(o, bool) or isinstance(o, int):
            o = int(o)
        elif isinstance(o, float):
            return getattr(float(self._v), name)(o)
        else:
            return NotImplemented
        r = getattr(self._v, name)(o)
        if r is NotImplemented:
            return r
        if isinstance(r, tuple):
            return tuple(mpz(t) for t in r)
        if isinstance(r, int) and not isinstance(r, bool):
            return mpz(r)
        return r
    f.__name__ = name
    return f

for _n in ['add', 'sub', 'mul', 'floordiv', 'mod', 'divmod', 'lshift', 'rshift',
           'and', 'or', 'xor']:
    setattr(mpz, '__%s__' % _n, _binop('__%s__' % _n))
    setattr(mpz, '__r%s__' % _n, _binop('__r%s__' % _n))


def _truediv(self, o):
    if type(o) is mpz: o = o._v
    if isinstance(o, (int, float)):
        return self._v / o
    return NotImplemented
def _rtruediv(self, o):
    if type(o) is mpz: o = o._v
    if isinstance(o, (int, float)):
        return o / self._v
    return NotImplemented
mpz.__truediv__ = _truediv
mpz.__rtruediv__ = _rtruediv


def _pow(self, e, m=None):
    if type(e) is mpz: e = e._v
    if type(m) is mpz: m = m._v
    if isinstance(e, float):
        return float(self._v) ** e
    if not isinstance(e, int):
        return NotImplemented
    if m is not None:
        return mpz(pow(self._v, e, m))
    if e < 0:
        raise ValueError("pow() exponent cannot be negative")
    return mpz(self._v ** e)
def _rpow(self, b, m=None):
    if type(b) is mpz: b = b._v
    if isinstance(b, float):
        return b ** float(self._v)
    if not isinstance(b, int):
        return NotImplemented
    if self._v < 0:
        raise ValueError("pow() exponent cannot be negative")
    return mpz(b ** self._v)
mpz.__pow__ = _pow
mpz.__rpow__ = _rpow


def bit_length(x):
    return abs(int(x)).bit_length()

def isqrt(x):
    x = int(x)
    if x < 0:
        raise ValueError("isqrt() of negative number")
    return mpz(_math.isqrt(x))

def isqrt_rem(x):
    x = int(x)
    if x < 0:
        raise ValueError("isqrt_rem() of negative number")
    r = _math.isqrt(x)
    return (mpz(r), mpz(x - r*r))

_DIG62 = '0123456789ABCDEFGHIJKLMNOPQRSTUVWXYZabcdefghijklmnopqrstuvwxyz'
_DIG36 = '0123456789abcdefghijklmnopqrstuvwxyz'

def _bigstr(x):
    # GMP has no limit on the length of a decimal conversion (CPython: 4300 digits)
    if x < 0:
        return '-' + _bigstr(-x)
    if x.bit_length() < 10000:
        return str(x)
    nd = int(x.bit_length() * 0.30103) // 2 + 1
    a, b = divmod(x, 10**nd)
    return _bigstr(a) + _bigstr(b).rjust(nd, '0')

def _bigint(s, base):
    s = s.strip().replace('_', '')
    if len(s) < 3000:
        return int(s, base)
    if s[0] in '+-':
        v = _bigint(s[1:], base)
        return -v if s[0] == '-' else v
    h = len(s) // 2
    return _bigint(s[:-h], base) * base**h + _bigint(s[-h:], base)

def digits(x, base=10):
    x = int(x)
    if not (2 <= base <= 62):
        raise ValueError("base must be in the interval 2 ... 62")
    if base == 10:
        return _bigstr(x)
    neg = x < 0
    x = abs(x)
    tab = _DIG36 if base <= 36 else _DIG62
    if x == 0:
        s = '0'
    else:
        d = []
        while x:
            x, r = divmod(x, base)
            d.append(tab[r])
        s = ''.join(reversed(d))
    return ('-' if neg else '') + s

def fac(n):
    n = int(n)
    if n < 0:
        raise ValueError("fac() of negative number")
    return mpz(_math.factorial(n))

def fib(n):
    n = int(n)
    if n < 0:
        raise ValueError("Fibonacci of negative number")
    a, b = 0, 1
    for _ in range(n):
        a, b = b, a + b
    return mpz(a)

def is_prime(x, n=25):
    x = int(x)
    if x < 2: return False
    i = 2
    while i*i <= x:
        if x % i == 0: return False
        i += 1
    return True


# --- transcription of gmpy2's C helpers ------------------------------------
def _build(sign, man, exp, bc):
    return (sign, man, exp, bc)

def __mpmath_normalize(sign, man, exp, bc, prec, rnd):
    sign = int(sign); bc = int(bc); prec = int(prec)
    if type(man) is not mpz:
        man = mpz(man)
    if not isinstance(rnd, str):
        raise ValueError("invalid rounding mode specified")
    r = rnd[0]
    m = man._v
    if m == 0:
        return (0, man, 0, 0)
    if bc <= prec and (m & 1):
        return (sign, man, exp, bc)
    shift = bc - prec
    if shift > 0:
        if r == 'f':
            up = -((-m) >> shift) if sign else m >> shift
        elif r == 'c':
            up = m >> shift if sign else -((-m) >> shift)
        elif r == 'd':
            up = m >> shift
        elif r == 'u':
            up = -((-m) >> shift)
        else:
            lower = m & ((1 << shift) - 1)
            up = m >> shift
            carry = 0
            if lower:
                if lower.bit_length() == shift:
                    if (lower & -lower).bit_length() - 1 == shift - 1:
                        if up & 1:
                            carry = 1
                    else:
                        carry = 1
            up += carry
        newexp = exp + shift
        bc = prec
    else:
        up = m
        newexp = exp
    zbits = (up & -up).bit_length() - 1 if up else 0
    if zbits:
        up >>= zbits
    newexp = newexp + zbits
    bc -= zbits
    if up == 1:
        bc = 1
    return (sign, mpz(up), newexp, bc)

def __mpmath_create(man, exp, prec=0, rnd='f'):
    man = mpz(man)
    prec = abs(int(prec))
    m = man._v
    if m == 0:
        return (0, man, 0, 0)
    sign = 1 if m < 0 else 0
    m = abs(m)
    bc = m.bit_length()
    if not prec:
        prec = bc
    return __mpmath_normalize(sign, mpz(m), exp, bc, prec, rnd)

if _os.environ.get('C37_SHIM_NORMALIZE') == '1':
    _mpmath_normalize = __mpmath_normalize
    _mpmath_create = __mpmath_create


# --- three-argument pow -----------------------------------------------------
# Real gmpy2 implements nb_power in C, so CPython's ternary_op reaches it
# also when only the *modulus* is an mpz: pow(2, 5, mpz(7)) == mpz(4).
# A Python-level class cannot be reached that way (slot_nb_power refuses when
# self is not an instance), so the builtin is wrapped to model the C behaviour.
import builtins as _builtins
_orig_pow = _builtins.pow
def _shim_pow(base, exp, mod=None):
    if mod is None:
        return _orig_pow(base, exp)
    if type(base) is mpz or type(exp) is mpz or type(mod) is mpz:
        if all(isinstance(t, int) or type(t) is mpz for t in (base, exp, mod)):
            return mpz(_orig_pow(int(base), int(exp), int(mod)))
    return _orig_pow(base, exp, mod)
_builtins.pow = _shim_pow
