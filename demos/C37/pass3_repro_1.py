# C37 violation 1: from_man_exp(man, exp, prec) WITHOUT an explicit rounding mode rounds a negative
# mantissa toward zero on the python backend (default rnd = round_fast = 'd') but toward -inf on the
# gmpy backend, where libmpf.py l.325 replaces from_man_exp by gmpy2's C helper _mpmath_create (default
# rnd = 'f'); the C helper also rejects the documented default prec=None.  Library-level consequence:
# mpf_bernoulli(n, prec) (gammazeta.py l.469 calls from_man_exp(s, sexp, wp) with a negative s).
# (real gmpy2 is used when importable; otherwise ./shim/gmpy2.py, a transcription of gmpy2's helper)
import sys, os; sys.path.insert(0, os.path.dirname(os.path.abspath(__file__)))
from _two import both
bad = 0
for expr, exact, expected in [
        ("from_man_exp(-7, 0, 2)", "-7", "(1, 3, 1, 2) = -6 (toward zero, 'd' = round_fast)"),
        ("from_man_exp(-1025, -3, 10)", "-1025/8", "(1, 1, 7, 1) = -128 (toward zero)"),
        ("from_man_exp(-5, 3, None)", "-40", "(1, 5, 3, 3) (prec=None is the documented default)"),
        ("mpf_bernoulli(10, 53)", "5/66", "one value, the same on both backends")]:
    py, gm = both(expr)
    print("%s   [exact value %s]\n   python  : %s\n   gmpy    : %s\n   expected: %s" % (expr, exact, py, gm, expected))
    if py != gm: bad += 1
print("backend divergences:", bad, "of 4")
sys.exit(1 if bad else 0)
