# C37 violation 1: cospi/sinpi differ between backends (bitcount of a NEGATIVE integer
# in mpf_cos_sin: python_bitcount -> 0, gmpy.bit_length -> bit length of |n|).
import sys, os, subprocess
SHIM = os.path.join(os.path.dirname(os.path.abspath(__file__)), 'shim')  # stand-in, used only if gmpy2 is absent
CODE = r'''
import sys, os; sys.path.insert(0, os.getcwd())
try: import gmpy2
except ImportError: sys.path.insert(1, %r)
from mpmath import mp, mpf, cospi
from mpmath.libmp import BACKEND, bitcount, to_int, mpf_shift
v = cospi(mpf(-0.343107435491489))               # default prec 53, round-to-nearest
mp.prec = 500; t = cospi(mpf(-0.343107435491489))
print(BACKEND, int(bitcount(-3)), int(v.man), v.exp, int(to_int(mpf_shift((+t)._mpf_, 64))))
''' % SHIM
def run(env):
    e = dict(os.environ, PYTHONDONTWRITEBYTECODE='1', C37_SHIM_NORMALIZE='1'); e.pop('MPMATH_NOGMPY', None); e.update(env)
    return subprocess.run([sys.executable, '-c', CODE], env=e, capture_output=True, text=True, cwd=os.getcwd()).stdout.split()
py = run({'MPMATH_NOGMPY': '1'}); gm = run({})
print('input : cospi(mpf(-0.343107435491489)), mp.prec = 53, rounding nearest')
for r in (py, gm):
    print('backend %-6s bitcount(-3) = %s   result = %s * 2**%s' % (r[0], r[1], r[2], r[3]))
true64 = int(py[4])                                # floor(cospi(x) * 2**64) from a 500-bit evaluation
expected = (true64 + (1 << 9)) >> 10               # nearest multiple of 2**-54 (result lies in [1/4, 1/2))
print('expected (correctly rounded, and identical on both backends): %d * 2**-54' % expected)
norm = lambda r: int(r[2]) << (int(r[3]) + 54)
print('python  backend gives %d * 2**-54;  gmpy backend gives %d * 2**-54' % (norm(py), norm(gm)))
bad = gm[0] == 'gmpy' and norm(py) != norm(gm)
print('VIOLATION: backends disagree' if bad else 'no violation')
sys.exit(1 if bad else 0)
