# C37 violation 2 (DEBATABLE, same root as the known exp/cos cutoffs): the working precision 260 lies in
# the band 200 < wp <= 400 where COS_SIN_CACHE_PREC (400 python / 200 gmpy, libelefun.py l.51-54) makes
# cos_sin_fixed run different algorithms: mpc_zetasum(0.3708..-104j, 20, 112, [0], True, 250) and
# mpf_cosh_sinh differ in the last bit between the backends.
import sys, os; sys.path.insert(0, os.path.dirname(os.path.abspath(__file__))); sys.path.insert(0, os.getcwd())
os.environ['MPMATH_NOGMPY'] = '1'
from _two import both
from mpmath.libmp import mpc_zetasum, mpf_pos, mpf_cosh_sinh
s = ((0, 398197423, -30, 29), (1, 13, 3, 4))
cases = [("mpc_zetasum(%r, 20, 112, [0], True, 250)[1][0][1]" % (s,), lambda: mpf_pos(mpc_zetasum(s, 20, 112, [0], True, 900)[1][0][1], 250, 'n')),
         ("mpf_cosh_sinh((0, 1025, -201, 11), 294, 'c')[1]", lambda: mpf_cosh_sinh((0, 1025, -201, 11), 3000, 'n') and mpf_pos(mpf_cosh_sinh((0, 1025, -201, 11), 3000, 'n')[1], 294, 'c'))]
bad = 0
for expr, oracle in cases:
    py, gm = both(expr)
    print(expr[:70]); print("   python :", py[:24] + '...' + py[-40:]); print("   gmpy   :", gm[:24] + '...' + gm[-40:])
    o = repr(oracle()); print("   900+ bit evaluation, rounded:", o[:24] + '...' + o[-40:], "(expected: both backends identical)")
    if py != gm: bad += 1
print("backend divergences:", bad, "of", len(cases))
sys.exit(1 if bad else 0)
