import sys, os; sys.path.insert(0, os.getcwd())
from mpmath import mp, mpf, mpc
from mpmath.libmp import bitcount
def bits(x):
    if hasattr(x, '_mpf_'): return bitcount(x._mpf_[1])
    return max(bitcount(x._mpc_[0][1]), bitcount(x._mpc_[1][1]))
bad = 0
def check(label, r, prec):
    global bad
    b = bits(r); ok = b <= prec
    print("%-34s prec=%-4d observed mantissa bits=%-4d expected<=%-4d %s" % (label, prec, b, prec, "ok" if ok else "VIOLATION"))
    print("    observed %r\n    expected %r" % (r, +r))
    bad |= (not ok)
# mpc_add_mpf / mpc_sub_mpf return the imaginary part of the operand unchanged (no rounding)
mp.prec = 200
z = mpc(1, 1) / 3          # 200-bit real and imaginary parts
mp.prec = 53
print("input z =", repr(z), "(200-bit parts), working prec 53")
check("z + 1", z + 1, 53)
check("1 + z", 1 + z, 53)
check("z - 1", z - 1, 53)
check("z + mpf(2.5)", z + mpf(2.5), 53)
check("z + 0.5 (float)", z + 0.5, 53)
check("fadd(z, 1, prec=10)", mp.fadd(z, 1, prec=10), 10)
check("control: z + mpc(1,0)", z + mpc(1, 0), 53)
sys.exit(1 if bad else 0)
