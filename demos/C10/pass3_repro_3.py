# C10 violation 3: polyval with a single coefficient (constant polynomial) returns the coefficient unrounded
import sys, os; sys.path.insert(0, os.getcwd())
from mpmath import mp, mpf, mpc, polyval
from mpmath.libmp import bitcount
mp.prec = 200
c = mpf(1)/7; z = mpc(c, mpf(3)/11)
mp.prec = 20
bad = 0
def bits(r): return bitcount(r._mpf_[1]) if hasattr(r, '_mpf_') else max(bitcount(r._mpc_[0][1]), bitcount(r._mpc_[1][1]))
for name, f in [("polyval([c], 3)", lambda: polyval([c], 3)), ("polyval([z], 3)", lambda: polyval([z], 3)),
                ("polyval([c], 3, derivative=True)[0]", lambda: polyval([c], 3, derivative=True)[0]),
                ("polyval([1, c], 0) [control]", lambda: polyval([1, c], 0)), ("polyval([c, 0], 1) [control]", lambda: polyval([c, 0], 1))]:
    r = f(); b = bits(r); ok = b <= mp.prec
    print("prec=20 %-38s = %s bits=%d expected <= 20 %s" % (name, mp.nstr(r, 8), b, "ok" if ok else "VIOLATION"))
    if not ok: bad += 1
sys.exit(1 if bad else 0)
