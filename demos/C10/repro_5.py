import sys, os; sys.path.insert(0, os.getcwd())
from mpmath import mp, mpf, mpc
from mpmath.libmp import bitcount
def bits(x):
    if hasattr(x, '_mpf_'): return bitcount(x._mpf_[1])
    return max(bitcount(x._mpc_[0][1]), bitcount(x._mpc_[1][1]))
bad = 0
def check(label, r, prec):
    global bad
    b = bits(r); ok = b <= prec
    print("%-34s prec=%-4d observed mantissa bits=%-4d expected<=%-4d %s" % (label, prec, b, prec, "ok" if ok else "VIOLATION"))
    print("    observed %r\n    expected %r" % (r, +r))
    bad |= (not ok)
# sum_accurately()/mul_accurately() results (prec+15 bits) returned unrounded by unwrapped functions
mp.prec = 53
check("elliprg(1, 2, 3)", mp.elliprg(1, 2, 3), 53)
check("qp(0.5)", mp.qp(0.5), 53)
check("qp(0.3, 0.5)", mp.qp(0.3, 0.5), 53)
check("qhyper([0.5],[0.25],0.3,0.7)", mp.qhyper([0.5], [0.25], 0.3, 0.7), 53)
check("pcfw(0.5, 0.25)", mp.pcfw(0.5, 0.25), 53)
sys.exit(1 if bad else 0)
