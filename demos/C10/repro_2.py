import sys, os; sys.path.insert(0, os.getcwd())
from mpmath import mp, mpf, mpc
from mpmath.libmp import bitcount
def bits(x):
    if hasattr(x, '_mpf_'): return bitcount(x._mpf_[1])
    return max(bitcount(x._mpc_[0][1]), bitcount(x._mpc_[1][1]))
bad = 0
def check(label, r, prec):
    global bad
    b = bits(r); ok = b <= prec
    print("%-34s prec=%-4d observed mantissa bits=%-4d expected<=%-4d %s" % (label, prec, b, prec, "ok" if ok else "VIOLATION"))
    print("    observed %r\n    expected %r" % (r, +r))
    bad |= (not ok)
# libhyper.mpf_besseljn does "prec += 50" and rounds the result to that, not to the caller's prec
mp.prec = 53
check("besselj(0, 1.5)", mp.besselj(0, 1.5), 53)
check("j0(1.5)", mp.j0(1.5), 53)
check("j1(0.25)", mp.j1(0.25), 53)
check("besselj(3, 7.5)", mp.besselj(3, 7.5), 53)
mp.prec = 200
check("besselj(2, 1.5) @200", mp.besselj(2, 1.5), 200)
sys.exit(1 if bad else 0)
