import sys, os; sys.path.insert(0, os.getcwd())
# C10: complex n-th roots (n <= 20, 2^-10 < |z| < 2^prec) carry int(1.2*(prec+10)) bits
from mpmath import mp, mpc, mpf
from mpmath.libmp import bitcount
bad = 0
for prec in (10, 53, 200):
    mp.prec = prec
    cases = [('root(2+3j, 3)', mp.root(mpc(2, 3), 3)),
             ('cbrt(-0.75)', mp.cbrt(mpf(-0.75))),
             ('nthroot(-2, 2)', mp.nthroot(mpf(-2), 2)),
             ('root(1+1j, 5, 1)  [k=1: fine, rounded by +v]', mp.root(mpc(1, 1), 5, 1)),
             ('mpc(2,3)**(1/3) [pow: fine]', mpc(2, 3) ** (mpf(1) / 3))]
    for name, r in cases:
        bits = [bitcount(c[1]) for c in r._mpc_]
        flag = max(bits) > prec
        bad += flag
        print('prec=%d %-45s mantissa bits (re, im) = %s  expected <= %d  %s' %
              (prec, name, bits, prec, 'VIOLATION' if flag else 'ok'))
mp.prec = 53
r = mp.root(mpc(2, 3), 3)
print('observed re mantissa:', bin(r.real._mpf_[1]))
print('expected (rounded)  :', bin((+r).real._mpf_[1]))
sys.exit(1 if bad else 0)
