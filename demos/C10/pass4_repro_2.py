import sys, os; sys.path.insert(0, os.getcwd())
# C10: mpc +/- real returns the imaginary part of the operand unrounded
from fractions import Fraction
from mpmath import mp, mpc, mpf
from mpmath.libmp import bitcount
mp.prec = 200
z = mpc(1, mpf(1) / 3)           # imaginary part carries 200 bits
mp.prec = 20
bad = 0
cases = [('z + mpf(1)', z + mpf(1)), ('mpf(1) + z', mpf(1) + z), ('z - mpf(1)', z - mpf(1)),
         ('z + 1', z + 1), ('1 + z', 1 + z), ('z - 1', z - 1), ('z + 0.5', z + 0.5),
         ('z + Fraction(1,3)', z + Fraction(1, 3)), ('z - "0.1"', z - '0.1'), ('z + mp.pi', z + mp.pi),
         ('mpf(1) + 0.1j', mpf(1) + 0.1j), ('z + 0', z + 0),
         ('z + mpc(1,0) [mpc+mpc: fine]', z + mpc(1, 0)), ('1 - z [rsub: fine]', 1 - z)]
for name, r in cases:
    bits = [bitcount(c[1]) for c in r._mpc_]
    flag = max(bits) > mp.prec
    bad += flag
    print('prec=20 %-32s bits (re, im) = %-10s expected im = %s  %s' %
          (name, bits, mp.nstr((+r).imag, 8), 'VIOLATION' if flag else 'ok'))
print('observed imag:', repr((z + 1).imag), ' expected:', repr(+z.imag))
sys.exit(1 if bad else 0)
