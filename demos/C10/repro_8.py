import sys, os; sys.path.insert(0, os.getcwd())
from mpmath import mp, mpf, mpc
from mpmath.libmp import bitcount
def bits(x):
    if hasattr(x, '_mpf_'): return bitcount(x._mpf_[1])
    return max(bitcount(x._mpc_[0][1]), bitcount(x._mpc_[1][1]))
bad = 0
def check(label, r, prec):
    global bad
    b = bits(r); ok = b <= prec
    print("%-34s prec=%-4d observed mantissa bits=%-4d expected<=%-4d %s" % (label, prec, b, prec, "ok" if ok else "VIOLATION"))
    print("    observed %r\n    expected %r" % (r, +r))
    bad |= (not ok)
# airyaizero/airybizero return findroot()'s output (computed at prec+20) without rounding
mp.prec = 53
check("airyaizero(1)", mp.airyaizero(1), 53)
check("airyaizero(3, 1)", mp.airyaizero(3, 1), 53)
check("airybizero(2)", mp.airybizero(2), 53)
check("airybizero(3,0,True)", mp.airybizero(3, 0, True), 53)
check("findroot(x^2-2, 1)", mp.findroot(lambda x: x**2 - 2, 1), 53)
sys.exit(1 if bad else 0)
