# C10 violation 1: mpc +/- real returns the imaginary part of the complex operand unrounded
import sys, os; sys.path.insert(0, os.getcwd())
from mpmath import mp, mpf, mpc, fadd, fsub
from mpmath.libmp import bitcount
mp.prec = 200
z = mpc(mpf(1)/7, mpf(3)/11)       # 200-bit real and imaginary parts
mp.prec = 20
bad = 0
cases = [("z + mpf(1)", lambda: z + mpf(1)), ("z - mpf(1)", lambda: z - mpf(1)), ("mpf(1) + z", lambda: mpf(1) + z),
         ("z + 1", lambda: z + 1), ("z - 0.5", lambda: z - 0.5), ("fadd(z, 1)", lambda: fadd(z, 1)),
         ("fsub(z, 1)", lambda: fsub(z, 1)), ("fadd(z, 1, prec=10)", lambda: fadd(z, 1, prec=10)),
         ("z + mpc(1) [control]", lambda: z + mpc(1, 0)), ("1 - z [control]", lambda: 1 - z)]
for name, f in cases:
    r = f()
    bits = (bitcount(r._mpc_[0][1]), bitcount(r._mpc_[1][1]))
    limit = 10 if "prec=10" in name else mp.prec
    ok = max(bits) <= limit
    print("%-22s prec=%d  mantissa bits (re, im) = %s  expected <= %d  %s" % (name, limit, bits, limit, "ok" if ok else "VIOLATION"))
    if not ok: bad += 1
mp.prec = 53
a = mpf(1) + complex(0.1, 0.3); mp.prec = 24; r = mpf(1) + complex(0.1, 0.3)
print("prec=24: mpf(1) + complex(0.1, 0.3) imag bits =", bitcount(r._mpc_[1][1]), "expected <= 24")
if bitcount(r._mpc_[1][1]) > 24: bad += 1
sys.exit(1 if bad else 0)
