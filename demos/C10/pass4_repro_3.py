import sys, os; sys.path.insert(0, os.getcwd())
# C10: zeta/siegelz on the Riemann-Siegel path (|Im s| > 500*prec) return the working-precision value unrounded
from mpmath import mp, mpc, mpf
from mpmath.libmp import bitcount
def bits(v):
    return [bitcount(c[1]) for c in v._mpc_] if hasattr(v, '_mpc_') else [bitcount(v._mpf_[1])]
bad = 0
for prec in (20, 53):
    mp.prec = prec
    t = 100000
    cases = [('zeta(0.5+%dj)' % t, mp.zeta(mpc(0.5, t))),
             ('zeta(0.75+%dj)' % t, mp.zeta(mpc(0.75, t))),
             ('zeta(0.5+%dj, derivative=1)' % t, mp.zeta(mpc(0.5, t), derivative=1)),
             ('siegelz(%d)' % t, mp.siegelz(t)),
             ('siegelz(%d, derivative=1)' % t, mp.siegelz(t, derivative=1)),
             ('rs_zeta(0.5+%dj)' % t, mp.rs_zeta(mpc(0.5, t))),
             ('rs_z(%d)' % t, mp.rs_z(t)),
             ('zeta(0.5-%dj) [conjugate path: fine]' % t, mp.zeta(mpc(0.5, -t)))]
    for name, r in cases:
        b = bits(r); flag = max(b) > prec; bad += flag
        print('prec=%d %-42s bits=%-10s expected <= %d  %s' % (prec, name, b, prec, 'VIOLATION' if flag else 'ok'))
mp.prec = 53
r = mp.zeta(mpc(0.5, 100000))
print('observed real part mantissa:', hex(r.real._mpf_[1]))
print('expected (rounded to 53)   :', hex((+r).real._mpf_[1]))
sys.exit(1 if bad else 0)
