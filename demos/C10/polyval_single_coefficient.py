# C10 violation 5: polyval with a single coefficient returns the coefficient unrounded
import sys, os; sys.path.insert(0, os.getcwd())
from mpmath import mp, mpf, polyval
from mpmath.libmp import bitcount
mp.prec = 100
c = mpf(1) / 3
mp.prec = 53
r = polyval([c], 2); r2 = polyval([c, 0], 2); r3 = polyval([0, c], 2)
b = bitcount(r._mpf_[1])
print("c = 1/3 at 100 bits; working precision 53")
print("polyval([c], 2)    bits", b, " value", mp.nstr(r, 32))
print("polyval([c, 0], 2) bits", bitcount(r2._mpf_[1]), "(control, rounded)")
print("polyval([0, c], 2) bits", bitcount(r3._mpf_[1]))
print("expected bits <= 53, value", mp.nstr(+c, 32))
sys.exit(1 if b > 53 else 0)
