import sys, os; sys.path.insert(0, os.getcwd())
from mpmath import mp, mpf, mpc
from mpmath.libmp import bitcount
def bits(x):
    if hasattr(x, '_mpf_'): return bitcount(x._mpf_[1])
    return max(bitcount(x._mpc_[0][1]), bitcount(x._mpc_[1][1]))
bad = 0
def check(label, r, prec):
    global bad
    b = bits(r); ok = b <= prec
    print("%-34s prec=%-4d observed mantissa bits=%-4d expected<=%-4d %s" % (label, prec, b, prec, "ok" if ok else "VIOLATION"))
    print("    observed %r\n    expected %r" % (r, +r))
    bad |= (not ok)
# jtheta() (derivative=0) returns the value computed at raised precision without a final rounding
mp.prec = 53
check("jtheta(3, 0.5, 0.25)", mp.jtheta(3, 0.5, 0.25), 53)
check("jtheta(1, 0.5, 0.25)", mp.jtheta(1, 0.5, 0.25), 53)
check("jtheta(2, 5, 0.75)", mp.jtheta(2, 5, 0.75), 53)
check("jtheta(4, 0.5+1j, 0.25)", mp.jtheta(4, mpc(0.5, 1), 0.25), 53)
check("control: jtheta(3,0.5,0.25,1)", mp.jtheta(3, 0.5, 0.25, 1), 53)
sys.exit(1 if bad else 0)
