# C10 violation 6 (scope debatable): linear-algebra / calculus entry points return their guard bits
import sys, os; sys.path.insert(0, os.getcwd())
from mpmath import *
from mpmath.libmp import bitcount
def bits(v):
    if hasattr(v, '_mpf_'): return bitcount(v._mpf_[1])
    if hasattr(v, '_mpc_'): return max(bitcount(v._mpc_[0][1]), bitcount(v._mpc_[1][1]))
    return max([bits(x) for x in v] or [0])
mp.prec = 53
A = matrix([[2, 1], [1, 3]])
cases = [("inverse(A)", lambda: inverse(A)), ("A**-1", lambda: A**-1), ("lu_solve(A,[1,2])", lambda: lu_solve(A, [1, 2])), ("qr_solve(A,[1,2])[0]", lambda: qr_solve(A, [1, 2])[0]),
         ("qr(A)[0]", lambda: qr(A)[0]), ("findroot(cos, 1)", lambda: findroot(cos, 1)), ("sumem(1/k^2)", lambda: sumem(lambda k: 1/k**2, [1, inf])),
         ("chebyfit(cos,[0,1],3)", lambda: chebyfit(cos, [0, 1], 3)), ("invertlaplace(1/(s+1), 1)", lambda: invertlaplace(lambda s: 1/(s+1), 1)),
         ("pade(taylor(exp,0,5),2,2)", lambda: pade(taylor(exp, 0, 5), 2, 2)), ("det(A) (control)", lambda: det(A)), ("quad(cos,[0,1]) (control)", lambda: quad(cos, [0, 1]))]
bad = 0
for name, f in cases:
    b = bits(f()); flag = b > mp.prec; bad += flag
    print("%-30s max mantissa bits %3d  allowed %d  %s" % (name, b, mp.prec, "VIOLATION" if flag else "ok"))
sys.exit(1 if bad else 0)
