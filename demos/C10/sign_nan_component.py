# C10 violation 4: sign(z) returns z unchanged when a component is nan (other component keeps all its bits)
import sys, os; sys.path.insert(0, os.getcwd())
from mpmath import mp, mpf, mpc, sign, nan
from mpmath.libmp import bitcount
mp.prec = 100
z = mp.make_mpc((nan._mpf_, (mpf(1) / 3)._mpf_))
mp.prec = 53
r = sign(z)
b = bitcount(r._mpc_[1][1])
print("input z = mpc(nan, 1/3 at 100 bits), working precision 53")
print("sign(z) =", r, " imag mantissa bits:", b, " (allowed 53; expected nan or a 53-bit component)")
sys.exit(1 if b > 53 else 0)
