# C10 violation 2: complex n-th roots (n = 2..20, Newton branch of mpc_nthroot) return int(1.2*(prec+10)) bits
import sys, os; sys.path.insert(0, os.getcwd())
from mpmath import mp, mpf, mpc, cbrt, root, nthroot
from mpmath.libmp import bitcount
bad = 0
def bits(r): return max(bitcount(r._mpc_[0][1]), bitcount(r._mpc_[1][1]))
for prec in (20, 53, 64, 200):
    mp.prec = prec
    cases = [("cbrt(-1)", lambda: cbrt(-1)), ("cbrt(2+3j)", lambda: cbrt(mpc(2, 3))), ("root(2+3j, 2)", lambda: root(mpc(2, 3), 2)),
             ("root(2+3j, 5)", lambda: root(mpc(2, 3), 5)), ("nthroot(-2, 3)", lambda: nthroot(-2, 3)),
             ("cbrt(2+3j, prec=30)", lambda: cbrt(mpc(2, 3), prec=30)), ("root(2+3j, 25) [control]", lambda: root(mpc(2, 3), 25))]
    for name, f in cases:
        r = f(); b = bits(r); limit = 30 if "prec=30" in name else prec
        ok = b <= limit
        print("prec=%-3d %-26s = %s  bits=%d expected <= %d %s" % (prec, name, mp.nstr(r, 8), b, limit, "ok" if ok else "VIOLATION"))
        if not ok: bad += 1
sys.exit(1 if bad else 0)
