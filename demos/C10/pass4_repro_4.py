import sys, os; sys.path.insert(0, os.getcwd())
# C10: hyper() with p > q+1 (divergent series summed to its smallest term in _hyp_borel) returns prec+10 bits
from mpmath import mp, mpf, mpc
from mpmath.libmp import bitcount
def bits(v):
    return [bitcount(c[1]) for c in v._mpc_] if hasattr(v, '_mpc_') else [bitcount(v._mpf_[1])]
bad = 0
cases = [(53, [1, 2, 3], [4], mpf('-0.02')), (20, [1, 1, 1], [], mpf('-0.01')),
         (20, [1, 1, 1], [], mpc(0, '0.01')), (20, [0.5, 1, 1.5, 2], [3], mpf('-0.01')),
         (10, [1, 1, 1, 1], [], mpf('-0.003'))]
for prec, a, b, z in cases:
    mp.prec = prec
    r = mp.hyper(a, b, z)
    bt = bits(r); flag = max(bt) > prec; bad += flag
    print('prec=%d hyper(%s, %s, %s) = %s  mantissa bits %s, expected <= %d  %s' %
          (prec, a, b, mp.nstr(z, 5), mp.nstr(r, 12), bt, prec, 'VIOLATION' if flag else 'ok'))
mp.prec = 53
r = mp.hyper([1, 2, 3], [4], mpf('-0.02'))
print('observed man:', bin(r._mpf_[1])); print('expected man:', bin((+r)._mpf_[1]))
sys.exit(1 if bad else 0)
