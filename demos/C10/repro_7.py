import sys, os; sys.path.insert(0, os.getcwd())
from mpmath import mp, mpf, mpc
from mpmath.libmp import bitcount
def bits(x):
    if hasattr(x, '_mpf_'): return bitcount(x._mpf_[1])
    return max(bitcount(x._mpc_[0][1]), bitcount(x._mpc_[1][1]))
bad = 0
def check(label, r, prec):
    global bad
    b = bits(r); ok = b <= prec
    print("%-34s prec=%-4d observed mantissa bits=%-4d expected<=%-4d %s" % (label, prec, b, prec, "ok" if ok else "VIOLATION"))
    print("    observed %r\n    expected %r" % (r, +r))
    bad |= (not ok)
# asymptotic branches of 1F1, 2F2, 1F2, 2F3 return while ctx.prec is still raised
mp.prec = 53
check("hyp1f1(0.5, 1.5, 100)", mp.hyp1f1(0.5, 1.5, 100), 53)
check("hyp1f1(0.5, 1.5, -1000)", mp.hyp1f1(0.5, 1.5, -1000), 53)
check("hyper([1],[2],1000)", mp.hyper([1], [2], 1000), 53)
check("hyp2f2(1,2,3,4,1e6)", mp.hyp2f2(1, 2, 3, 4, 1e6), 53)
check("hyp1f2(1,2,3,1e10)", mp.hyp1f2(1, 2, 3, 1e10), 53)
check("hyp2f3(1,2,3,4,5,1e10)", mp.hyp2f3(1, 2, 3, 4, 5, 1e10), 53)
check("control: hyp1f1(3,4,50)", mp.hyp1f1(3, 4, 50), 53)
sys.exit(1 if bad else 0)
