import sys, os; sys.path.insert(0, os.getcwd())
from mpmath import mp, mpf, mpc
from mpmath.libmp import bitcount
def bits(x):
    if hasattr(x, '_mpf_'): return bitcount(x._mpf_[1])
    return max(bitcount(x._mpc_[0][1]), bitcount(x._mpc_[1][1]))
bad = 0
def check(label, r, prec):
    global bad
    b = bits(r); ok = b <= prec
    print("%-34s prec=%-4d observed mantissa bits=%-4d expected<=%-4d %s" % (label, prec, b, prec, "ok" if ok else "VIOLATION"))
    print("    observed %r\n    expected %r" % (r, +r))
    bad |= (not ok)
# mpc_nthroot Newton branch (2 <= n <= 20) rounds to prec2=int(1.2*(prec+10)) instead of prec
mp.prec = 53
check("cbrt(-2)", mp.cbrt(-2), 53)
check("cbrt(2+1j)", mp.cbrt(mpc(2, 1)), 53)
check("root(2+1j, 5)", mp.root(mpc(2, 1), 5), 53)
check("nthroot(-2, 20)", mp.nthroot(-2, 20), 53)
check("cbrt(2+1j, prec=20)", mp.cbrt(mpc(2, 1), prec=20), 20)
sys.exit(1 if bad else 0)
