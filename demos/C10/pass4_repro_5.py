import sys, os; sys.path.insert(0, os.getcwd())
# C10 (DEBATABLE scope): numerical-calculus / linear-algebra entry points hand back their guard bits
from mpmath import mp, mpf, matrix, cos, sin, exp
from mpmath.libmp import bitcount
def mb(v):
    if isinstance(v, mp.mpf): return bitcount(v._mpf_[1])
    if isinstance(v, mp.mpc): return max(bitcount(c[1]) for c in v._mpc_)
    if isinstance(v, (tuple, list)) or isinstance(v, mp.matrix): return max([mb(x) for x in v] + [0])
    return 0
mp.prec = 53
A = matrix([[2, 1, 0.3], [1, 3, 0.7], [0.3, 0.7, 5]]); b = matrix([1, 2, 0.1])
cases = [('findroot(cos, 1)', lambda: mp.findroot(cos, 1)),
         ('findroot(cos, (1,2), solver="bisect")', lambda: mp.findroot(cos, (1, 2), solver='bisect')),
         ('inverse(A)', lambda: mp.inverse(A)), ('A**-1', lambda: A**-1), ('lu_solve(A,b)', lambda: mp.lu_solve(A, b)),
         ('qr_solve(A,b)[0]', lambda: mp.qr_solve(A, b)[0]), ('qr(A)', lambda: mp.qr(A)), ('cholesky_solve(A,b)', lambda: mp.cholesky_solve(A, b)),
         ('pade(taylor(exp,0,6),3,3)', lambda: mp.pade(mp.taylor(exp, 0, 6), 3, 3)), ('chebyfit(sin,[0,1],5)', lambda: mp.chebyfit(sin, [0, 1], 5)),
         ('sumem(1/k^2,[32,inf])', lambda: mp.sumem(lambda k: 1/k**2, [32, mp.inf])),
         ('invertlaplace(1/(s+1), 0.7)', lambda: mp.invertlaplace(lambda s: 1/(s+1), 0.7, method='talbot')),
         ('quad(sin,[0,1],error=True)[1]', lambda: mp.quad(sin, [0, 1], error=True)[1]),
         ('det(A) [fine]', lambda: mp.det(A)), ('quad(sin,[0,1]) [fine]', lambda: mp.quad(sin, [0, 1]))]
bad = 0
for name, f in cases:
    m = mb(f()); flag = m > mp.prec; bad += flag
    print('prec=53 %-40s max mantissa bits = %3d  expected <= 53  %s' % (name, m, 'VIOLATION' if flag else 'ok'))
sys.exit(1 if bad else 0)
