# C10 (DEBATABLE group): calculus / linear-algebra entry points return prec+10..prec+20 bits or pass inputs through
import sys, os; sys.path.insert(0, os.getcwd())
from mpmath import mp, mpf, matrix, findroot, inverse, lu_solve, chebyfit, sumem, invertlaplace, pade, chop
from mpmath.libmp import bitcount
def bits(r):
    if hasattr(r, '_mpf_'): return bitcount(r._mpf_[1])
    if hasattr(r, '_mpc_'): return max(bitcount(r._mpc_[0][1]), bitcount(r._mpc_[1][1]))
    return max([bits(t) for t in r] or [0])
mp.prec = 300; x = mpf(1)/7; y = mpf(3)/11
mp.prec = 20; bad = 0
cases = [("findroot(t*t-2, 1)", lambda: findroot(lambda t: t*t - 2, 1)),
         ("inverse([[3,1],[1,7]])", lambda: inverse(matrix([[3, 1], [1, 7]]))),
         ("lu_solve([[3]], [1])", lambda: lu_solve(matrix([[3]]), matrix([1]))),
         ("chebyfit(exp,[0,1],2)", lambda: chebyfit(mp.exp, [0, 1], 2)),
         ("sumem(1/t^2,[1,inf])", lambda: sumem(lambda t: 1/t**2, [1, mp.inf])),
         ("invertlaplace(1/(s+1), 1)", lambda: invertlaplace(lambda s: 1/(s+1), 1)),
         ("pade([x,y,x],1,1)", lambda: pade([x, y, x], 1, 1)),
         ("chop(x)  (x has 300 bits)", lambda: chop(x))]
for name, f in cases:
    r = f(); b = bits(r); ok = b <= mp.prec
    print("prec=20 %-28s max mantissa bits = %3d expected <= 20 %s" % (name, b, "ok" if ok else "VIOLATION (debatable)"))
    if not ok: bad += 1
sys.exit(1 if bad else 0)
