import sys, os; sys.path.insert(0, os.getcwd())
from mpmath import mp, mpf, mpc
from mpmath.libmp import bitcount
def bits(x):
    if hasattr(x, '_mpf_'): return bitcount(x._mpf_[1])
    return max(bitcount(x._mpc_[0][1]), bitcount(x._mpc_[1][1]))
bad = 0
def check(label, r, prec):
    global bad
    b = bits(r); ok = b <= prec
    print("%-34s prec=%-4d observed mantissa bits=%-4d expected<=%-4d %s" % (label, prec, b, prec, "ok" if ok else "VIOLATION"))
    print("    observed %r\n    expected %r" % (r, +r))
    bad |= (not ok)
# hyperu(): "return v / z**a" is executed while ctx.prec is raised by 10
mp.prec = 53
check("hyperu(2, 5, 0.3)", mp.hyperu(2, 5, 0.3), 53)
check("hyperu(1.5, 2.5, 0.3)", mp.hyperu(1.5, 2.5, 0.3), 53)
check("hyperu(1.5, 2.25, 1000)", mp.hyperu(1.5, 2.25, 1000), 53)
check("control: hyperu(1, 1, 3)", mp.hyperu(1, 1, 3), 53)
sys.exit(1 if bad else 0)
