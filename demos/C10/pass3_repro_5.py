# C10 (DEBATABLE): functions that accept **kwargs silently ignore a prec/dps keyword, so the result
# carries mp.prec bits instead of "the precision given by a prec/dps keyword"
import sys, os; sys.path.insert(0, os.getcwd())
from mpmath import mp, mpf
from mpmath.libmp import bitcount
def bits(r):
    if hasattr(r, '_mpf_'): return bitcount(r._mpf_[1])
    return max(bitcount(r._mpc_[0][1]), bitcount(r._mpc_[1][1]))
mp.prec = 53; bad = 0; x = mpf(1)/3
cases = [("exp(x, prec=10) [control]", lambda: mp.exp(x, prec=10)), ("gamma(x, prec=10) [control]", lambda: mp.gamma(x, prec=10)),
         ("ellipk(x, prec=10) [control]", lambda: mp.ellipk(x, prec=10)),
         ("zeta(3, prec=10)", lambda: mp.zeta(3, prec=10)), ("zeta(x, dps=3)", lambda: mp.zeta(x, dps=3)),
         ("hurwitz(3, x, prec=10)", lambda: mp.hurwitz(3, x, prec=10)), ("besseli(1, x, prec=10)", lambda: mp.besseli(1, x, prec=10)),
         ("besselj(x, x, prec=10)", lambda: mp.besselj(x, x, prec=10)), ("legendre(x, x, prec=10)", lambda: mp.legendre(x, x, prec=10)),
         ("hyp2f1(x, 1, 2, x, prec=10)", lambda: mp.hyp2f1(x, 1, 2, x, prec=10)), ("pcfu(x, x, prec=10)", lambda: mp.pcfu(x, x, prec=10)),
         ("qgamma(x, x, prec=10)", lambda: mp.qgamma(x, x, prec=10)), ("qfac(x, x, prec=10)", lambda: mp.qfac(x, x, prec=10)),
         ("lommels1(x, 1, x, prec=10)", lambda: mp.lommels1(x, 1, x, prec=10))]
for name, f in cases:
    try: r = f()
    except TypeError as e: print('mp.prec=53 %-30s raises TypeError (keyword collides internally)' % name); continue
    b = bits(r); ok = b <= 13
    print("mp.prec=53 %-30s = %-12s bits=%2d expected <= 10 (dps=3: 13) %s" % (name, mp.nstr(r, 8), b, "ok" if ok else "VIOLATION (debatable)"))
    if not ok: bad += 1
sys.exit(1 if bad else 0)
