# C10 violation 3: conj()/conjugate() of a real mpf returns the operand unrounded (mpc.conjugate rounds)
import sys, os; sys.path.insert(0, os.getcwd())
from mpmath import mp, mpf, mpc, conj
from mpmath.libmp import bitcount
mp.prec = 100
x = mpf(1) / 3
mp.prec = 53
r1 = conj(x); r2 = x.conjugate(); r3 = conj(mpc(0, 0) + x * 1) ; ctl = mp.make_mpc((x._mpf_, mp.zero._mpf_)).conjugate()
b1, b2 = bitcount(r1._mpf_[1]), bitcount(r2._mpf_[1]); bc = bitcount(ctl._mpc_[0][1])
print("input x = 1/3 computed at 100 bits; working precision 53")
print("conj(x)        ->", mp.nstr(r1, 32), "mantissa bits", b1)
print("x.conjugate()  ->", mp.nstr(r2, 32), "mantissa bits", b2)
print("expected (+x)  ->", mp.nstr(+x, 32), "mantissa bits", bitcount((+x)._mpf_[1]))
print("control: (x+0j as 100-bit mpc).conjugate() real part bits", bc)
sys.exit(1 if (b1 > 53 or b2 > 53) else 0)
