# C24 violation 1: mpf_expint asymptotic loop never ends (expint / gammainc with integer order, real x)
import sys, os; sys.path.insert(0, os.getcwd())
import signal, time
from mpmath import mp, mpf
class Hang(Exception): pass
def on_alarm(*a): raise Hang()
signal.signal(signal.SIGALRM, on_alarm)
cases = [('gammainc(-31, 113)', lambda: mp.gammainc(-31, 113)),
         ('expint(90, 221)',    lambda: mp.expint(90, 221))]
bad = 0
for name, f in cases:
    mp.prec = 1000; expected = f()            # high precision takes another branch and returns at once
    mp.prec = 53
    signal.alarm(5); t0 = time.time()
    try:
        got = f(); signal.alarm(0)
        print(name, 'prec=53 returned', got, 'expected', mp.nstr(expected, 17))
    except Hang:
        bad += 1
        print(name, 'prec=53: NO RESULT after 5 s (loop "while m and t" in mpf_expint diverges);',
              'expected', mp.nstr(expected, 17), '(computed at prec=1000 in < 0.1 s)')
print('violations:', bad)
sys.exit(1 if bad else 0)
