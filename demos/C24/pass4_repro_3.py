import sys, os; sys.path.insert(0, os.getcwd())
# mp.rs_z / mp.rs_zeta called with a small argument: the loop that looks for the number L of
# Riemann-Siegel terms, 'while 3*c*gamma(L/2)*(b*a)**(-L) >= eps2: L += 1', never ends
import signal
from mpmath import mp, mpc
class TO(Exception): pass
def h(s, f): raise TO()
signal.signal(signal.SIGALRM, h)
mp.prec = 53
bad = False
for name, arg in (("rs_z", 10), ("rs_zeta", mpc(0.5, 30))):
    print("input: mp.%s(%s) at prec=53; expected: a value or NotImplementedError "
          "('Riemann-Siegel can not compute with such precision'), as for mp.rs_zeta(0.5+100j)" % (name, arg))
    signal.alarm(8)
    try:
        v = getattr(mp, name)(arg); signal.alarm(0)
        print("observed:", v)
    except TO:
        print("observed: no result after 8 s (the loop does not end)"); bad = True
    except NotImplementedError as e:
        signal.alarm(0); print("observed: NotImplementedError")
print("VIOLATION" if bad else "ok")
sys.exit(1 if bad else 0)
