# C24 violation 2: gammainc(z, a, b) with a negative limit recurses without end (gammainc <-> _gamma3)
import sys, os; sys.path.insert(0, os.getcwd())
from mpmath import mp, mpf, quad, exp
mp.prec = 53
bad = 0
for z, a, b in [(10, -0.5, 0), (20, -3, -1), (50, 0, -0.5), (5, -0.001, 0)]:
    expected = quad(lambda t: t**(z-1)*exp(-t), [a, b])   # the defining integral (entire integrand)
    try:
        got = mp.gammainc(z, a, b)
        status = 'returned %s' % got
    except (ValueError, ZeroDivisionError, mp.NoConvergence, NotImplementedError) as e:
        status = 'documented exception %s' % type(e).__name__
    except RecursionError:
        bad += 1
        status = 'RecursionError (unbounded mutual recursion gammainc -> _gamma3 -> gammainc, prec += 15 per level)'
    print('gammainc(%s, %s, %s) prec=53: observed %s; expected %s' % (z, a, b, status, expected))
print('violations:', bad)
sys.exit(1 if bad else 0)
