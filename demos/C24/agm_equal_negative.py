# C24 violation 1: agm(a, a) with Re(a) < 0 (or a on the negative imaginary axis) never returns.
import sys, os; sys.path.insert(0, os.getcwd())
import signal
from mpmath import mp, mpf, mpc, agm
class Hang(Exception): pass
def h(*a): raise Hang()
signal.signal(signal.SIGALRM, h)
bad = 0
for prec, a, b in [(53, mpf(-1), mpf(-1)), (53, mpf(-0.75), mpf(-0.75)), (30, mpc(-1, -1), mpc(-1, -1)),
                   (53, mpc(0, -1), mpc(0, -1)), (15, mpf(-1), mpf(-1) - mpf(2)**-52)]:
    mp.prec = prec
    signal.alarm(3)
    try:
        v = agm(a, b); obs = repr(v)
    except Hang:
        obs = "NO RESULT after 3 s (loop in libmp.libhyper.mpc_agm does not terminate)"; bad += 1
    finally:
        signal.alarm(0)
    print("prec=%d agm(%r, %r): observed %s; expected %r (agm(a,a) = a)" % (prec, a, b, obs, a))
sys.exit(1 if bad else 0)
