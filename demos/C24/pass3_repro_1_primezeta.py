import sys, os; sys.path.insert(0, os.getcwd())
import signal, time
from mpmath import mp, mpf, mpc, libmp
# C24 violation 1: primezeta(s) with a small positive Re(s) never finishes:
# its term generator (zeta.py, primezeta.terms, "while 1") has no iteration
# bound and needs about prec/Re(s) terms, each with a zeta evaluation.
class TO(Exception): pass
def handler(sig, frm): raise TO()
signal.signal(signal.SIGALRM, handler)
mp.prec = 53
s = mpc(mpf(2)**-40, 1)          # finite, |s| ~ 1, Re(s) > 0: inside the documented domain
LIMIT = 12
print("input: primezeta(%r) at prec=%d" % (s, mp.prec))
t0 = time.time(); k_reached = None; status = None
signal.alarm(LIMIT)
try:
    v = mp.primezeta(s); status = "returned %r" % v
except TO:
    tb = sys.exc_info()[2]
    while tb is not None:          # read the loop counter of the generator frame
        if tb.tb_frame.f_code.co_name == 'terms': k_reached = tb.tb_frame.f_locals.get('k')
        tb = tb.tb_next
    status = "TIMEOUT"
except (ValueError, ZeroDivisionError, libmp.NoConvergence, NotImplementedError) as ex:
    status = "raised %s" % type(ex).__name__
finally:
    signal.alarm(0)
need = int((mp.prec + 15) / s.real)
print("expected: a value or ValueError/NoConvergence/... after a bounded amount of work")
print("observed: %s after %.1f s; loop counter k = %r; terms needed before the loop can stop ~ %d (= wp/Re(s))"
      % (status, time.time() - t0, k_reached, need))
mp.prec = 53
sys.exit(1 if status == "TIMEOUT" else 0)
