# C24 violation 2: qp(a, q, n) whose finite product is exactly 1 doubles the working precision
# without bound (mul_accurately: cancellation = +inf) until an OverflowError stops it.
import sys, os; sys.path.insert(0, os.getcwd())
from mpmath import mp, mpf, qp
bad = 0
for a, q, n in [(2, 1, 2), (3, 0.5, 2), (2, 1, 4)]:
    mp.prec = 53
    try:
        obs = repr(qp(a, q, n))
    except (ValueError, ZeroDivisionError, mp.NoConvergence, NotImplementedError) as e:
        obs = "documented exception %r" % e
    except Exception as e:
        obs = "UNDOCUMENTED %r with mp.prec left at %d" % (e, mp.prec); bad += 1
    exact = 1
    for k in range(n): exact *= (1 - a * q**k)
    print("qp(%r, %r, %r): observed %s; expected %r" % (a, q, n, obs, exact))
sys.exit(1 if bad else 0)
