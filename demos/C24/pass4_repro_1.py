import sys, os; sys.path.insert(0, os.getcwd())
# siegelz(t) for complex t on the Riemann-Siegel route: math.pow(9, sigma) overflows
from mpmath import mp, mpc, siegelz, siegeltheta, zeta, expj, j
mp.prec = 53
t = mpc(110000, 330)
print("input: siegelz(%r) at prec=%d" % (t, mp.prec))
mp.prec = 120                       # reference: the definition Z(t) = exp(i theta(t)) zeta(1/2 + i t)
ref = expj(siegeltheta(t)) * zeta(0.5 + j*t)
mp.prec = 53
print("expected: a value close to", mp.nstr(ref, 12), "(or a documented exception)")
try:
    v = siegelz(t)
    print("observed:", mp.nstr(v, 12))
    bad = not (abs(v - ref) < abs(ref) * 1e-9)
except (ValueError, ZeroDivisionError, mp.NoConvergence, NotImplementedError) as e:
    print("observed: documented exception", type(e).__name__); bad = False
except Exception as e:
    print("observed: undocumented exception %s: %s" % (type(e).__name__, e)); bad = True
print("VIOLATION" if bad else "ok")
sys.exit(1 if bad else 0)
