import sys, os; sys.path.insert(0, os.getcwd())
# zeta(s) on the automatic Riemann-Siegel route (|Im s| > 500*prec, 10*|Re s| < prec):
# math.pow(9, sigma) overflows for |sigma| > 323, reachable from prec ~ 3240 on
from mpmath import mp, mpc, zeta
mp.prec = 3300
bad = False
for s in (mpc(325, 1.7e6), mpc(-325, 1.7e6)):
    print("input: zeta(%s) at prec=%d" % (mp.nstr(s, 10), mp.prec))
    print("expected: a finite value (zeta(325+it) = 1 + 2^-s + ... ~ 1) or a documented exception")
    try:
        v = zeta(s)
        print("observed:", mp.nstr(v, 12))
    except (ValueError, ZeroDivisionError, mp.NoConvergence, NotImplementedError) as e:
        print("observed: documented exception", type(e).__name__)
    except Exception as e:
        print("observed: undocumented exception %s: %s" % (type(e).__name__, e)); bad = True
print("VIOLATION" if bad else "ok")
sys.exit(1 if bad else 0)
