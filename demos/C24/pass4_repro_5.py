import sys, os; sys.path.insert(0, os.getcwd())
# besseljzero(v, 1): the work grows like v^3 (0.9 s at v=200, 24 s at v=400, 200 s at v=800;
# v = 1600 ends with ValueError after 80 s): orders of 10^4 .. 10^6 are out of reach
import signal, time
from mpmath import mp, besseljzero
class TO(Exception): pass
def h(s, f): raise TO()
signal.signal(signal.SIGALRM, h)
mp.prec = 53
t0 = time.time(); v = besseljzero(200, 1); t1 = time.time() - t0
print("besseljzero(200, 1) =", v, "in %.2f s" % t1)
print("input: besseljzero(800, 1) at prec=53; expected: j_{800,1} = 817.33861... after a bounded, moderate amount of work")
signal.alarm(20)
try:
    v = besseljzero(800, 1); signal.alarm(0)
    print("observed:", v); bad = False
except TO:
    print("observed: no result after 20 s"); bad = True
print("VIOLATION" if bad else "ok")
sys.exit(1 if bad else 0)
