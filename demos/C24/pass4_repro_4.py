import sys, os; sys.path.insert(0, os.getcwd())
# stieltjes(n >= 1, a) for complex a (also a = 1e-10, a = -0.5): the quadrature never reaches its
# tolerance and runs through all 20 degrees (about 25 minutes at 53 bits, estimated by doubling)
import signal, time
from mpmath import mp, mpc, stieltjes
class TO(Exception): pass
def h(s, f): raise TO()
signal.signal(signal.SIGALRM, h)
mp.prec = 53
t0 = time.time(); v = stieltjes(1, 1.5); t1 = time.time() - t0
print("stieltjes(1, 1.5) =", v, "in %.3f s" % t1)
a = mpc(1.5, -0.125)
print("input: stieltjes(1, %s) at prec=53; expected: a result after a comparable amount of work" % a)
signal.alarm(20)
try:
    v = stieltjes(1, a); signal.alarm(0)
    print("observed:", v); bad = False
except TO:
    print("observed: no result after 20 s (> %d times the real case)" % int(20/max(t1, 1e-3))); bad = True
print("VIOLATION" if bad else "ok")
sys.exit(1 if bad else 0)
