# C24 violation 3: sum_accurately with only zero terms reads an unbound variable (UnboundLocalError),
# hit by pcfw(a, x) for a >= 8 at 53 bits and by ellipe(pi, m), ellippi(n, pi, m) at every precision.
import sys, os; sys.path.insert(0, os.getcwd())
from mpmath import mp, mpf, pcfw, ellipe, ellippi, pi
bad = 0
def ref_pcfw(a, x):
    mp.prec = 400; v = pcfw(a, x); mp.prec = 53; return +v
def ref_ellipe(m):
    return 2*ellipe(m)                    # E(pi | m) = 2 E(m)
def ref_ellippi(n, m):
    return 2*ellippi(n, m)                # Pi(n; pi | m) = 2 Pi(n, m)
cases = [("pcfw(8, 1)", lambda: pcfw(8, 1), lambda: ref_pcfw(8, 1)),
         ("pcfw(20, 0.5)", lambda: pcfw(20, 0.5), lambda: ref_pcfw(20, 0.5)),
         ("ellipe(pi, 0.5)", lambda: ellipe(pi, 0.5), lambda: ref_ellipe(0.5)),
         ("ellippi(0.25, pi, 0.5)", lambda: ellippi(0.25, pi, 0.5), lambda: ref_ellippi(0.25, 0.5))]
for name, f, ref in cases:
    mp.prec = 53
    try:
        obs = repr(f())
    except (ValueError, ZeroDivisionError, mp.NoConvergence, NotImplementedError) as e:
        obs = "documented exception %r" % e
    except Exception as e:
        obs = "UNDOCUMENTED %s: %s" % (type(e).__name__, e); bad += 1
    mp.prec = 53
    print("%s at 53 bits: observed %s; expected %r" % (name, obs, ref()))
sys.exit(1 if bad else 0)
