# C24 violation 3: primezeta(s) for small Re(s) > 0: the term loop stops only when ln(zeta(k*s)) == 0 exactly,
# i.e. after about prec/s squarefree k -- an unreachable tolerance for tiny s.
import sys, os; sys.path.insert(0, os.getcwd())
import signal, time
from mpmath import mp, mpf
class Hang(Exception): pass
def on_alarm(*a): raise Hang()
signal.signal(signal.SIGALRM, on_alarm)
mp.prec = 53
last = [0]; orig = mp.moebius
def counting_moebius(k):
    last[0] = int(k); return orig(k)
mp.moebius = counting_moebius
bad = 0
for s in ('0.05', '1e-10', '1e-30'):
    last[0] = 0; signal.alarm(6); t0 = time.time()
    try:
        v = mp.primezeta(mpf(s)); signal.alarm(0)
        print('primezeta(%s): returned %s after k=%d (%.1f s)' % (s, v, last[0], time.time()-t0))
    except Hang:
        bad += 1
        need = int(mp.prec/float(s))
        print('primezeta(%s): NO RESULT after 6 s, loop index k=%d; loop can only stop at k > prec/s = %.3g '
              '(at this rate %.3g years); expected: a value or a documented exception' % (s, last[0], need, need/(last[0]/6.0)/3.15e7))
print('violations:', bad)
sys.exit(1 if bad else 0)
