# DEBATABLE: iv.atan2 on a box touching the origin from the upper-left quadrant excludes atan2(0, 0) = 0
import sys, os; sys.path.insert(0, os.getcwd())
from mpmath import mp, iv, mpf
iv.prec = 53
y = iv.mpf([0, 1]); x = iv.mpf([-1, 0])
r = iv.atan2(y, x)
v = mp.atan2(0, 0)
a, b = mpf(r._mpi_[0]), mpf(r._mpi_[1])
print('iv.atan2([0,1], [-1,0]) =', r, ';  mp.atan2(0,0) =', v, '(the point y=0, x=0 belongs to the inputs)')
print('for comparison iv.atan2([0,0], [-1,1]) =', iv.atan2(iv.mpf(0), iv.mpf([-1, 1])), '(includes 0)')
ok = a <= v <= b
print('VIOLATION' if not ok else 'ok')
sys.exit(0 if ok else 1)
