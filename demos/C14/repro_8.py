# gamma family, generic points: mpf_gamma rounds an approximation (about 20 guard bits) in the requested direction
import sys, os; sys.path.insert(0, os.getcwd())
from mpmath import mp, iv, mpf
from mpmath.libmp import from_man_exp
mp.prec = 600
fail = 0
cases = [('loggamma', 53, from_man_exp(4514837231449853, -52)),            # 53-bit input, default precision
         ('rgamma',   53, from_man_exp(7598567772882863331469327125, -96)), # 93-bit input
         ('gamma',    10, from_man_exp(645082516272549, -50))]              # 50-bit input, 10-bit intervals
for name, prec, xraw in cases:
    iv.prec = prec
    r = getattr(iv, name)(iv.make_mpf((xraw, xraw)))._mpi_
    a, b = mpf(r[0]), mpf(r[1]); exact = getattr(mp, name)(mpf(xraw))
    ok = a <= exact <= b
    print('iv.%s(%s) at iv.prec=%d' % (name, mp.nstr(mpf(xraw), 30), prec))
    print('  observed [%s, %s]' % (mp.nstr(a, 25), mp.nstr(b, 25)))
    print('  expected to contain %s (lower-exact = %s, exact-upper = %s) ->' % (mp.nstr(exact, 25), mp.nstr(a-exact, 4), mp.nstr(exact-b, 4)), 'ok' if ok else 'VIOLATION')
    fail |= not ok
sys.exit(1 if fail else 0)
