# iv.atan2 with a small quotient y/x: mpf_atan returns x itself for every rounding mode -> point interval [q, q]
import sys, os; sys.path.insert(0, os.getcwd())
from mpmath import mp, iv, mpf
from mpmath.libmp import mpf_atan, from_man_exp
mp.prec = 600
iv.prec = 53
fail = 0
for k in (53, 60, 80, 94):
    y = mpf(2)**-k
    r = iv.atan2(iv.mpf(y), 1)._mpi_
    a, b = mpf(r[0]), mpf(r[1]); exact = mp.atan(y)
    ok = a <= exact <= b
    print('iv.atan2(2^-%d, 1): observed [2^-%d*(1%+.3g), 2^-%d*(1%+.3g)], exact = 2^-%d*(1%+.3g) ->' % (k, k, a/y-1, k, b/y-1, k, exact/y-1), 'ok' if ok else 'VIOLATION')
    fail |= not ok
r = iv.atan2(1e-20, 1)._mpi_; ok = mpf(r[0]) <= mp.atan(mpf(1e-20)); fail |= not ok
print('iv.atan2(1e-20, 1) =', r, ' lower <= atan(1e-20):', ok)
# the kernel: atan(2^-50) < 2^-50 but all directed modes return 2^-50 at 53 bits
x = from_man_exp(1, -50)
print('mpf_atan(2^-50, 53, rnd) for f,c,d,u:', [mpf_atan(x, 53, rnd) for rnd in 'fcdu'])
# interval arguments: y = [2^-11, 5*2^25], x = [-1, 2^23] at iv.prec = 3; point (2^-11, 2^23) gives atan(2^-34) < 2^-34
iv.prec = 3
r = iv.atan2(iv.mpf([mpf(2)**-11, 5*2**25]), iv.mpf([-1, 2**23]))._mpi_
exact = mp.atan2(mpf(2)**-11, 2**23)
ok = mpf(r[0]) <= exact <= mpf(r[1])
print('iv.atan2([2^-11, 5*2^25], [-1, 2^23]) at prec 3: lower =', mpf(r[0]), ' atan2(2^-11, 2^23) =', mp.nstr(exact, 25), '->', 'ok' if ok else 'VIOLATION')
fail |= not ok
sys.exit(1 if fail else 0)
