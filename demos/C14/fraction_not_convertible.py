import sys, os; sys.path.insert(0, os.getcwd())
from fractions import Fraction
from mpmath import iv
# The property lists Fractions among the convertible inputs; ctx_iv.convert_mpf_ has no branch for them.
bad = 0
for x in [Fraction(1, 3), (Fraction(1, 3), Fraction(2, 3))]:
    try:
        R = iv.mpf(x)
        print("iv.mpf(%r) = %s" % (x, R))
    except Exception as e:
        print("iv.mpf(%r): observed %s(%s); expected an interval containing the fraction" % (x, type(e).__name__, e))
        bad += 1
try:
    print("iv.mpf(2) * Fraction(1,3) =", iv.mpf(2) * Fraction(1, 3))
except Exception as e:
    print("iv.mpf(2) * Fraction(1,3): observed %s; expected [0.666.., 0.666..]" % type(e).__name__); bad += 1
print("(the string form works: iv.mpf('1/3') = %s)" % iv.mpf('1/3'))
sys.exit(1 if bad else 0)
