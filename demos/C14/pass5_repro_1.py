import sys, os; sys.path.insert(0, os.getcwd())
from mpmath import iv, mp
from mpmath.libmp import fnan
# C14 violation 1: iv.atan2 returns an "interval" with a nan endpoint when one
# argument is a point at infinity and the other a (half-)infinite interval.
inf = float('inf')
iv.prec = 53; mp.prec = 53
cases = [  # (y, x, a finite sample (y0, x0) of the inputs in the extended sense)
    ((1, inf), (inf, inf), (5.0, inf)),      # atan2(y, +inf) = 0 for every finite y
    ((inf, inf), (1, inf), (inf, 5.0)),      # atan2(+inf, x) = pi/2 for every finite x
    ((-inf, -inf), (-inf, 2), (-inf, -7.0)), # atan2(-inf, x) = -pi/2
    ((-inf, -2), (-inf, -inf), (-3.0, -inf)),# atan2(y<0, -inf) = -pi
]
bad = 0
for y, x, (y0, x0) in cases:
    r = iv.atan2(iv.mpf(y), iv.mpf(x))
    exact = mp.atan2(y0, x0)          # mpmath's own value at a point of the inputs
    a, b = r._mpi_
    has_nan = (a == fnan or b == fnan)
    contained = (not has_nan) and (r.a <= exact <= r.b)
    print("iv.atan2(y=%s, x=%s) = %s   | mp.atan2(%s, %s) = %s  contained: %s"
          % (list(y), list(x), r, y0, x0, exact, bool(contained)))
    if not contained: bad += 1
print("expected: intervals with ordinary endpoints containing the values above "
      "(e.g. [0, pi/2], [0, pi/2], [-pi, -pi/2], [-pi, -pi/2])")
sys.exit(1 if bad else 0)
