# C14 violation 3 (debatable): a fractions.Fraction cannot be converted to an interval at all.
import sys, os; sys.path.insert(0, os.getcwd())
from fractions import Fraction
from mpmath import iv, mp
iv.prec = 53
q = Fraction(1, 3)
bad = 0
for label, f in (("iv.mpf(Fraction(1,3))", lambda: iv.mpf(q)),
                 ("iv.convert(Fraction(1,3))", lambda: iv.convert(q)),
                 ("iv.mpf(1) + Fraction(1,3)", lambda: iv.mpf(1) + q),
                 ("iv.mpf((Fraction(1,3), Fraction(2,3)))", lambda: iv.mpf((q, 2*q))),
                 ("iv.exp(Fraction(1,3))", lambda: iv.exp(q))):
    try:
        print(label, "->", f())
    except Exception as e:
        bad += 1
        print(label, "-> raises", repr(e))
print("expected: intervals containing 1/3 etc., e.g.", iv.mpf('1/3'), "(mp.mpf(Fraction(1,3)) works:", mp.mpf(q), ")")
print("VIOLATION" if bad else "ok")
sys.exit(1 if bad else 0)
