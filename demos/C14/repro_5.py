# iv.loggamma for huge x: mpf_gamma(type=3) uses x*log(x) - x (drops -log(x)/2 + log(2pi)/2, undirected intermediates)
import sys, os; sys.path.insert(0, os.getcwd())
from mpmath import mp, iv, mpf
from mpmath.libmp import from_man_exp
mp.prec = 800
iv.prec = 53
fail = 0
for label, xraw in (('53-bit x = 4503599628445305 * 2^22', from_man_exp(4503599628445305, 22)),
                    ('78-bit x = 207028546609005217585645 * 2^-3', from_man_exp(207028546609005217585645, -3))):
    x = mpf(xraw)
    r = iv.loggamma(iv.make_mpf((xraw, xraw)))._mpi_
    a, b = mpf(r[0]), mpf(r[1])
    exact = mp.loggamma(x)
    # independent cross-check of the oracle with Stirling's series
    stirling = (x - 0.5)*mp.log(x) - x + mp.log(2*mp.pi)/2 + 1/(12*x) - 1/(360*x**3)
    assert abs(exact - stirling) < mpf(2)**-100
    ok = a <= exact <= b
    print(label)
    print('  observed iv.loggamma(x) = [%s, %s]' % (mp.nstr(a, 30), mp.nstr(b, 30)))
    print('  expected to contain      ', mp.nstr(exact, 30), ' (lower - exact = %s, exact - upper = %s)' % (mp.nstr(a - exact, 8), mp.nstr(exact - b, 8)))
    print('  ->', 'ok' if ok else 'VIOLATION')
    fail |= not ok
sys.exit(1 if fail else 0)
