# C14: iv.gamma / iv.rgamma / iv.loggamma of a tiny positive point at iv.prec >= 4960 miss the exact value
import sys, os; sys.path.insert(0, os.getcwd())
from fractions import Fraction
from mpmath import mp, iv, mpf
from mpmath.libmp import from_man_exp
def F(v): return (-1)**v[0] * Fraction(v[1]) * Fraction(2)**v[2]
iv.prec = 5000
# (a) x = (2^63+1) * 2^-5093 ~ 2^-5030.  gamma(x) = 1/x - euler + O(x), hence 1/x - 1 < gamma(x) < 1/x
x = mp.make_mpf(from_man_exp(2**64 - 1, -5094))
r = iv.gamma(iv.mpf(x)); a, b = F(r._mpi_[0]), F(r._mpi_[1]); X = F(x._mpf_)
bad_a = not (a <= 1/X and b >= 1/X - 1)
print("(a) x = (2^64-1)*2^-5094, iv.prec = 5000")
print("    observed  gamma(x)*x in [%.12f, %.12f]" % (float(a*X), float(b*X)))
print("    expected  an interval containing gamma(x)*x = 1 - 0.577*x, i.e. 1.000000000000 ->", "VIOLATION" if bad_a else "ok")
# (b) x = 1e-300 (Python float); oracle: log gamma(1+x) = -euler*x + sum_{k>=2} zeta(k) (-x)^k / k  (no gamma code involved)
x = mpf(1e-300); r = iv.gamma(iv.mpf(1e-300)); lo, hi = mp.make_mpf(r._mpi_[0]), mp.make_mpf(r._mpi_[1])
mp.prec = 7000
y = mp.exp(-mp.euler*x + sum(mp.zeta(k)*(-x)**k/k for k in range(2, 10)))/x
bad_b = not (lo <= y <= hi)
print("(b) x = 1e-300, iv.prec = 5000: relative width of result 2^%d" % int(mp.log((hi-lo)/y, 2)))
print("    observed  (lower - gamma(x))/gamma(x) = %s, (upper - gamma(x))/gamma(x) = %s" % (mp.nstr((lo-y)/y, 5), mp.nstr((hi-y)/y, 5)))
print("    expected  lower <= gamma(x) <= upper ->", "VIOLATION" if bad_b else "ok")
sys.exit(1 if (bad_a or bad_b) else 0)
