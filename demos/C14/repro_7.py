# iv.gamma / iv.rgamma with an endpoint carrying more bits than the working precision:
# mpf_gamma truncates x to prec+~21 fixed-point bits before evaluating, whatever the rounding direction
import sys, os; sys.path.insert(0, os.getcwd())
from mpmath import mp, iv, mpf
mp.prec = 1000
iv.prec = 53
fail = 0
for base in (1, 2, 3, 10):
    x = mpf(base) + mpf(2)**-100           # exact mpf with a 101+ bit mantissa
    for name, f, g in (('gamma', iv.gamma, mp.gamma), ('rgamma', iv.rgamma, mp.rgamma)):
        r = f(iv.mpf(x))._mpi_
        a, b = mpf(r[0]), mpf(r[1]); exact = g(x)
        ok = a <= exact <= b
        print('iv.%s(%d + 2^-100) = [%s, %s];  exact = %s%+.5g  ->' % (name, base, mp.nstr(a, 20), mp.nstr(b, 20),
              mp.nstr(g(mpf(base)), 20), exact - g(mpf(base))), 'ok' if ok else 'VIOLATION')
        fail |= not ok
# same thing with a genuine interval: [1, 1 + 2^-50] at iv.prec = 10 -> [1, 1] although gamma(1+2^-50) < 1
iv.prec = 10
X = iv.mpf([1, 1 + mpf(2)**-50])
r = iv.gamma(X)._mpi_
exact = mp.gamma(1 + mpf(2)**-50)
ok = mpf(r[0]) <= exact <= mpf(r[1])
print('iv.gamma([1, 1+2^-50]) at prec 10 =', [mpf(r[0]), mpf(r[1])], ' gamma(1+2^-50) = 1%+.5g ->' % (exact - 1), 'ok' if ok else 'VIOLATION')
fail |= not ok
sys.exit(1 if fail else 0)
