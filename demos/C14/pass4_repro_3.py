# C14 (DEBATABLE): the string form '[a, b]' with a > b is accepted and yields an improper "interval" (the tuple form refuses it)
import sys, os; sys.path.insert(0, os.getcwd())
from mpmath import mp, iv
iv.prec = 53
bad = False
for s in ['[2, 1]', '[inf, -inf]', '[0.3, 0.1]']:
    r = iv.mpf(s)
    a, b = mp.make_mpf(r._mpi_[0]), mp.make_mpf(r._mpi_[1])
    proper = a <= b
    print("iv.mpf(%r) -> observed %s (a <= b: %s); expected: ValueError/AssertionError as for the tuple form, or an enclosure of both literals" % (s, r, proper))
    bad |= not proper
try:
    iv.mpf((2, 1)); print("tuple form (2, 1) accepted")
except AssertionError as e:
    print("tuple form (2, 1) -> AssertionError:", e)
r = iv.mpf('[2, 1]')
print("follow-up: (x - x) for x = iv.mpf('[2, 1]') ->", r - r, "; 1.5 in x ->", 1.5 in r)
sys.exit(1 if bad else 0)
