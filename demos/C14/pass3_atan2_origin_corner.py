# C14 violation 2 (debatable): iv.atan2 of a box whose corner is the origin, lying in the
# closed upper-left quadrant (y=[0,yb], x=[xa,0]), excludes atan2(0,0) = 0.
import sys, os; sys.path.insert(0, os.getcwd())
from mpmath import iv, mp
iv.prec = 53
y = iv.mpf([0, 1]); x = iv.mpf([-1, 0])
r = iv.atan2(y, x)
v = mp.atan2(0, 0)          # value at the point (y, x) = (0, 0) of the inputs
print("iv.atan2(%s, %s) = %s" % (y, x, r))
print("point y=0, x=0 belongs to the inputs; mp.atan2(0,0) =", v, "; iv.atan2(0,0) =", iv.atan2(0, 0))
print("expected: an interval containing 0 (as for y=[0,1], x=[0,1]: %s" % iv.atan2(y, iv.mpf([0, 1])),
      "and y=[-1,0], x=[-1,0]: %s)" % iv.atan2(iv.mpf([-1, 0]), x))
bad = not (v in r)
print("VIOLATION" if bad else "ok")
sys.exit(1 if bad else 0)
