# C14 (DEBATABLE): converting the lazy mp constant mp.pi (accepted through its _mpf_ attribute) gives a point interval that excludes pi
import sys, os; sys.path.insert(0, os.getcwd())
from mpmath import mp, iv, mpf
mp.prec = 53; iv.prec = 53
print("isinstance(mp.pi, mp.mpf):", isinstance(mp.pi, mp.mpf))
r1 = iv.mpf(mp.pi)            # conversion
r2 = iv.mpf(1) + mp.pi        # operand conversion in arithmetic
r3 = iv.mpf([mp.e, mp.pi])    # endpoint conversion
mp.prec = 400
pi_hi, e_hi = +mp.pi, +mp.e
bad = []
for name, r, lo, hi in [("iv.mpf(mp.pi)", r1, pi_hi, pi_hi), ("iv.mpf(1) + mp.pi", r2, 1+pi_hi, 1+pi_hi), ("iv.mpf([mp.e, mp.pi])", r3, e_hi, pi_hi)]:
    a, b = mp.make_mpf(r._mpi_[0]), mp.make_mpf(r._mpi_[1])
    ok = a <= lo and hi <= b
    print("%-22s observed [%s, %s]  expected to contain [%s, %s] -> %s" % (name, mp.nstr(a, 20), mp.nstr(b, 20), mp.nstr(lo, 20), mp.nstr(hi, 20), "ok" if ok else "VIOLATION"))
    if not ok: bad.append(name)
iv.prec = 53
print("for comparison +iv.pi =", +iv.pi)
sys.exit(1 if bad else 0)
