# iv.exp / iv ** real: result does not contain exp(x) (mpf_exp rounds an approximation with 14 guard bits)
import sys, os; sys.path.insert(0, os.getcwd())
from mpmath import mp, iv, mpf
from mpmath.libmp import from_man_exp
fail = 0
def check(label, r, exact):
    global fail
    a, b = mpf(r._mpi_[0]), mpf(r._mpi_[1])
    ok = a <= exact <= b
    print(label); print('  observed [%s, %s]' % (mp.nstr(a, 25), mp.nstr(b, 25)))
    print('  expected to contain', mp.nstr(exact, 25), '->', 'ok' if ok else 'VIOLATION')
    fail |= not ok
mp.prec = 400
# case A: iv.prec = 11, x = -1491/1024 (11-bit point): a POINT interval is returned for a transcendental value
iv.prec = 11
x = mpf(-1491) / 1024
check('iv.exp(-1491/1024) at iv.prec=11', iv.exp(iv.mpf(x)), mp.exp(x))
# case B: default precision 53, 53-bit point input
iv.prec = 53
x = mpf(from_man_exp(7163737874075175, -58))
check('iv.exp(7163737874075175*2^-58) at iv.prec=53', iv.exp(iv.mpf(x)), mp.exp(x))
# case C: iv.prec = 3, x = 2^27
iv.prec = 3
check('iv.exp(2^27) at iv.prec=3', iv.exp(iv.mpf(2**27)), mp.exp(2**27))
# case D: real power goes through mpi_exp: [0.125, 0.125+2^-49] ** [-1, -1+2^-50] at iv.prec=2 gives [8, 8]
iv.prec = 2
s = iv.mpf([mpf(1)/8, mpf(1)/8 + mpf(2)**-49]); t = iv.mpf([-1, -1 + mpf(2)**-50])
check('[1/8, 1/8+2^-49] ** [-1, -1+2^-50] at iv.prec=2 (point x=1/8+2^-49, y=-1)', s**t, 1/(mpf(1)/8 + mpf(2)**-49))
sys.exit(1 if fail else 0)
