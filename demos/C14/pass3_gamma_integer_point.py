# C14 violation 1: iv.gamma / iv.rgamma / iv.factorial at an integer return a
# one-point interval that is NOT the exact value (mpf_outward "exact_at_integers").
import sys, os; sys.path.insert(0, os.getcwd())
from fractions import Fraction
from math import factorial
from mpmath import iv
from mpmath.libmp import to_rational
def F(x): return Fraction(*to_rational(x))
bad = 0
def check(label, prec, f, n, exact):
    global bad
    iv.prec = prec
    r = f(n); a, b = r._mpi_
    ok = F(a) <= exact <= F(b)
    print("%s at iv.prec=%d: result %s, is a point: %s" % (label, prec, iv.nstr(r, 25), a == b))
    print("   expected: an interval containing the exact value; lower<=exact: %s, exact<=upper: %s"
          % (F(a) <= exact, exact <= F(b)))
    if not ok: bad += 1
check("iv.rgamma(14)   [exact 1/13!]", 1598, iv.rgamma, 14, Fraction(1, factorial(13)))
check("iv.gamma(902)   [exact 901!]", 950, iv.gamma, 902, Fraction(factorial(901)))
check("iv.factorial(901) [exact 901!]", 950, iv.factorial, 901, Fraction(factorial(901)))
check("iv.rgamma(48610) [exact 1/48609!]", 53, iv.rgamma, 48610, Fraction(1, factorial(48609)))
print("VIOLATION" if bad else "ok", bad)
sys.exit(1 if bad else 0)
