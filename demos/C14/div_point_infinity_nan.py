import sys, os; sys.path.insert(0, os.getcwd())
from mpmath import iv
from mpmath.libmp import fnan
# nan endpoint from the division [inf, inf] / [0, inf]  (mpi_div, zero-lower-endpoint denominator branch,
# does not map the nan of inf/inf to an endpoint the way the positive-denominator branch does)
R = iv.inf / iv.mpf([0, 'inf'])
print("iv.inf / iv.mpf([0, inf]) = %s ; expected [0, +inf] or [-inf, +inf], no nan endpoint" % R)
R2 = iv.mpf('nan')
print("iv.mpf('nan') = %s ; iv.mpf(float('nan')) = %s (string path keeps nan endpoints, float path gives the whole line)" % (R2, iv.mpf(float('nan'))))
sys.exit(1 if fnan in R._mpi_ else 0)
