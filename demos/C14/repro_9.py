# DEBATABLE: string form "x[y,z]e" with a negative shared prefix yields an inverted (empty) interval
import sys, os; sys.path.insert(0, os.getcwd())
from fractions import Fraction
from mpmath import iv, mpf
iv.prec = 53
fail = 0
for s, lo, hi in (('-1.2[3,4]e5', Fraction(-124000), Fraction(-123000)), ('-1.2[3,4]', Fraction('-1.24'), Fraction('-1.23'))):
    x = iv.mpf(s)
    a, b = x._mpi_
    fa = Fraction(int(a[1]) * (-1)**a[0]) * Fraction(2)**a[2]; fb = Fraction(int(b[1]) * (-1)**b[0]) * Fraction(2)**b[2]
    ok = fa <= lo and hi <= fb
    print('iv.mpf(%r) -> lower %s, upper %s ; denoted range [%s, %s] ; lower <= upper: %s ->' % (s, float(fa), float(fb), float(lo), float(hi), fa <= fb),
          'ok' if ok else 'VIOLATION')
    fail |= not ok
sys.exit(1 if fail else 0)
