# iv.log: directed rounding of an approximation (20 guard bits, input truncated to the working precision)
import sys, os; sys.path.insert(0, os.getcwd())
from mpmath import mp, iv, mpf
from mpmath.libmp import from_man_exp
mp.prec = 500
fail = 0
def check(label, prec, xraw):
    global fail
    iv.prec = prec
    r = iv.log(iv.make_mpf((xraw, xraw)))._mpi_
    a, b = mpf(r[0]), mpf(r[1]); exact = mp.log(mpf(xraw))
    ok = a <= exact <= b
    print(label); print('  observed [%s, %s]' % (mp.nstr(a, 30), mp.nstr(b, 30)))
    print('  expected to contain', mp.nstr(exact, 30), '(lower-exact = %s, exact-upper = %s)' % (mp.nstr(a-exact, 5), mp.nstr(exact-b, 5)), '->', 'ok' if ok else 'VIOLATION')
    fail |= not ok
# case A: 93-bit endpoint at iv.prec=53: a POINT interval is returned for log of a dyadic number != 1
check('iv.log(6848407204479104108599131881 * 2^-98) at iv.prec=53', 53, from_man_exp(6848407204479104108599131881, -98))
# case B: power of two at iv.prec=1: log(2^189097) = 131072.0000026 > 2^17, upper endpoint is 2^17
check('iv.log(2^189097) at iv.prec=1', 1, from_man_exp(1, 189097))
# case C: x = exp(B) rounded to 200 bits, B = 1234.5 (any representable B works, one of the two sides fails)
x = mp.exp(mpf('1234.5')) * (1 + mpf(2)**-190)
mp.prec = 200; x = +x; mp.prec = 500
check('iv.log(exp(1234.5)*(1+2^-190) rounded to 200 bits) at iv.prec=53', 53, x._mpf_)
sys.exit(1 if fail else 0)
