# iv.log of a number with a huge exponent: mpf_log returns exp*ln2 and drops log(mantissa)
import sys, os; sys.path.insert(0, os.getcwd())
from mpmath import mp, iv, mpf
from mpmath.libmp import from_man_exp
mp.prec = 500
iv.prec = 53
fail = 0
def check(label, xraw, exact):
    global fail
    r = iv.log(iv.make_mpf((xraw, xraw)))._mpi_
    a, b = mpf(r[0]), mpf(r[1])
    ok = a <= exact <= b
    print(label); print('  observed [%s, %s]' % (mp.nstr(a, 30), mp.nstr(b, 30)))
    print('  expected to contain', mp.nstr(exact, 30), ' (exact - upper = %s)' % mp.nstr(exact - b, 6), '->', 'ok' if ok else 'VIOLATION')
    fail |= not ok
# case A: x = 3 * 2^e, e chosen so that e*ln2 is just below the 53-bit number B = (2^52+12345)*2^24
e = 109006955297839493248427
check('iv.log(3 * 2^%d) at iv.prec=53' % e, from_man_exp(3, e), e*mp.ln2 + mp.log(3))
# case B: long mantissa (2^(2^24)-1): dropped term log(man) = 1.16e7 is 5.5 ulp of the result
e = 2**74
man = (1 << (1 << 24)) - 1
x = (0, man, e, 1 << 24)
exact = (e + 2**24)*mp.ln2 + mp.log1p(-mpf(2)**-(2**24))
check('iv.log((2^(2^24)-1) * 2^(2^74)) at iv.prec=53', x, exact)
sys.exit(1 if fail else 0)
