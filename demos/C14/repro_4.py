# iv.gamma / iv.rgamma very close to the pole at 0: shortcut formulas 1/x - 2^-wp and x + 2^(mag-wp) are not bounds
import sys, os; sys.path.insert(0, os.getcwd())
from mpmath import mp, iv, mpf
mp.prec = 800
iv.prec = 53
fail = 0
def check(label, f, g, x):
    global fail
    r = f(iv.mpf(x))._mpi_          # x is an mpf: endpoints are kept exactly (more bits than iv.prec)
    a, b = mpf(r[0]), mpf(r[1]); exact = g(x)
    ok = a <= exact <= b
    print(label, ' x =', mp.nstr(x, 30), '(%d-bit mantissa)' % x._mpf_[3])
    print('  observed [%s, %s]' % (mp.nstr(a, 30), mp.nstr(b, 30)))
    print('  expected to contain', mp.nstr(exact, 30), '(lower-exact = %s, exact-upper = %s)' % (mp.nstr(a-exact, 5), mp.nstr(exact-b, 5)), '->', 'ok' if ok else 'VIOLATION')
    fail |= not ok
# 53-bit endpoint: x = 4503599627382945 * 2^-128
check('iv.gamma(x)', iv.gamma, mp.gamma, mpf(4503599627382945) * mpf(2)**-128)
# gamma(x) = 1/x - 0.5772.. + O(x).  B is a 53-bit number ~2^75; x = 1/(B + 0.9) rounded to 200 bits.
B = mpf((1 << 52) + 98765) * 2**23
x = 1/(B + mpf('0.9'))
mp.prec = 200; x = +x; mp.prec = 800
check('iv.gamma(x)', iv.gamma, mp.gamma, x)
# rgamma(x) = x + 0.5772 x^2 + ...  x = Bm - eps with Bm a 53-bit number ~2^-78 and eps = 2^-153
Bm = mpf((1 << 52) + 4567) * mpf(2)**-131
x = Bm - mpf(2)**-153
check('iv.rgamma(x)', iv.rgamma, mp.rgamma, x)
sys.exit(1 if fail else 0)
