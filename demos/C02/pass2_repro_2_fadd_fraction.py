# DEBATABLE (same root cause as repro_1, Fraction as operand of fadd): the operand is
# converted at the *context* precision/rounding before fadd applies prec=/rounding=,
# so a directed rounding request is not honoured.
import sys, os; sys.path.insert(0, os.getcwd())
from fractions import Fraction
from mpmath import mp, mpf, fadd
mp.prec = 53
y = Fraction(2**60 + 1, 2**61)          # 1/2 + 2**-61
got = fadd(0, y, prec=10, rounding='u')  # round away from zero to 10 bits
s, m, e, bc = got._mpf_
got_q = (-1) ** s * Fraction(int(m)) * Fraction(2) ** e
expected = Fraction(513, 1024)           # smallest 10-bit value >= y
print("fadd(0, Fraction(2**60+1, 2**61), prec=10, rounding='u')")
print("observed:", got_q, " raw", got._mpf_, " (observed < exact operand:", got_q < y, ")")
print("expected:", expected)
sys.exit(1 if got_q != expected else 0)
