# DEBATABLE: Fraction used as an *operand* (the property lists Fraction only for
# mpf() construction): the operand is first rounded to p bits, then the sum is
# rounded again -> double rounding, result is not the correctly rounded exact sum.
import sys, os; sys.path.insert(0, os.getcwd())
from fractions import Fraction
from mpmath import mp, mpf
mp.prec = 5                      # rounding mode: nearest (default)
x, y = mpf(1), Fraction(2, 3)
got = x + y
exact = Fraction(1) + y          # 5/3 = 1.6666...
# 5-bit neighbours of 5/3 in [1,2): 26/16 and 27/16 -> nearest is 27/16
expected = min([Fraction(26, 16), Fraction(27, 16)], key=lambda c: abs(c - exact))
s, m, e, bc = got._mpf_
got_q = (-1) ** s * Fraction(int(m)) * Fraction(2) ** e
print("prec=5, rounding='n':  mpf(1) + Fraction(2,3)")
print("observed:", got_q, "=", float(got_q), " raw", got._mpf_)
print("expected:", expected, "=", float(expected), " (exact sum 5/3)")
print("cause: Fraction(2,3) -> 21/32 (5 bits), 1 + 21/32 = 53/32 is a tie -> 26/16")
mp.prec = 53
sys.exit(1 if got_q != expected else 0)
