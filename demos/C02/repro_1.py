# C02 violation 1: conversion of a Fraction (mpmathify / ctx.convert, the path used by fadd/fsub/fmul/fdiv,
# fsum, sqrt and by mpf <op> Fraction) truncates toward zero instead of rounding to nearest / the requested mode.
import sys, os; sys.path.insert(0, os.getcwd())
from fractions import Fraction
from mpmath import mp, mpf, mpmathify, fmul, fadd
mp.prec = 53
q = Fraction(1, 10)
want_n = (0, 3602879701896397, -55, 52)      # RN_53(1/10) == mpf(1)/10 == mpf(0.1)
assert (mpf(1)/10)._mpf_ == want_n and mpf(0.1)._mpf_ == want_n
got = mpmathify(q)._mpf_
print("mpmathify(Fraction(1,10))      observed", got, "expected", want_n)
bad = got != want_n
# directed: floor of -1/10 must be <= -1/10, ceiling of 1/10 must be >= 1/10
lo = fmul(Fraction(-1, 10), 1, rounding='f'); hi = fadd(q, 0, rounding='c')
lo_q = Fraction(-int(lo.man), 1) * Fraction(2)**lo.exp; hi_q = Fraction(int(hi.man)) * Fraction(2)**hi.exp
print("fmul(Fraction(-1,10),1,rounding='f') observed", lo._mpf_, "<= -1/10 ?", lo_q <= Fraction(-1, 10))
print("fadd(Fraction(1,10),0,rounding='c')  observed", hi._mpf_, ">=  1/10 ?", hi_q >= q)
bad |= not (lo_q <= Fraction(-1, 10)) or not (hi_q >= q)
# operator with a Fraction operand: mpf(0) + 1/10 must be RN(1/10)
s = (mpf(0) + q)._mpf_
print("mpf(0)+Fraction(1,10)          observed", s, "expected", want_n)
bad |= s != want_n
print("VIOLATION" if bad else "ok")
sys.exit(1 if bad else 0)
