# C02 violation 3: fdot() of p-bit factors whose magnitudes span < p bits is not the correctly rounded
# exact dot product: mpf_sum discards the running sum when the next product lies > 2*prec bits above it.
import sys, os; sys.path.insert(0, os.getcwd())
from fractions import Fraction
from mpmath import mp, mpf, fdot
p = 53; mp.prec = p
u = mpf(2)**-(p-1)
F = lambda x: Fraction(int(x.man) * (-1 if x < 0 else 1)) * Fraction(2)**x.exp
bad = False
for label, a, b, rnd in (
    ("nearest", [1+u, mpf(-1), mpf(48)], [1+u, 1+2*u, mpf(2)**(p-1)+3], 'n'),   # 48*(2^52+3) is a tie at 53 bits
    ("ceiling", [1+u, mpf(-1), mpf(16)], [1+u, 1+2*u, mpf(2)**(p-1)], 'c')):    # 16*2^52 is representable
    assert all(x.bc <= p for x in a+b)
    exact = sum(F(x)*F(y) for x, y in zip(a, b))            # = big + 2^-(2p-2)
    big = F(a[2])*F(b[2])
    mp._prec_rounding[1] = rnd                               # context rounding mode (no public setter)
    try: got = fdot(a, b); rev = fdot(a[::-1], b[::-1])
    finally: mp._prec_rounding[1] = 'n'
    # exact > big, and big is a tie / representable, so the correct result is strictly above big
    ok = F(got) > big
    print(label, "a =", a, "b =", b)
    print("   exact - big =", exact - big, " observed fdot =", got._mpf_, " (reversed order:", rev._mpf_, ")")
    print("   expected a result > %d, observed %s" % (big, "greater" if ok else "<= big  (running sum dropped)"))
    bad |= not ok or got != rev
print("VIOLATION" if bad else "ok")
sys.exit(1 if bad else 0)
