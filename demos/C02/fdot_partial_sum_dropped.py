# fdot drops an exactly-cancelled partial sum when a later product has a much larger exponent
import sys, os; sys.path.insert(0, os.getcwd())
from mpmath import mp, mpf, fdot
mp.prec = 53                      # factors: <= 53-bit mantissas, magnitudes 2^53..2^80
A = [2**53 - 2, 2**53 - 1, 2**80, 2**80]
B = [2**53 - 2, -(2**53 - 3), 2**76, -(2**76)]
exact = sum(a * b for a, b in zip(A, B))          # = 1 ; products span 2^106..2^156 (< 53 bits)
bad = 0
for mode in 'nfcdu':
    mp._prec_rounding[1] = mode
    got = fdot([mpf(a) for a in A], [mpf(b) for b in B])
    want = mpf(exact)
    print("mode", mode, "fdot(A,B) =", got, " expected", want)
    bad += got != want
    # three-term variant: exact value 2^156 + 1 must round up under 'c'/'u'
    got3 = fdot(A[:3], B[:3]); want3 = mpf(sum(a * b for a, b in zip(A[:3], B[:3])))
    print("   3 terms:", got3._mpf_[1:3], " expected", want3._mpf_[1:3])
    bad += got3 != want3
mp._prec_rounding[1] = 'n'
print("A =", A); print("B =", B); print("exact dot product =", exact)
sys.exit(1 if bad else 0)
