# C02 violation 2: mpf() cannot be constructed from a fractions.Fraction at all (TypeError),
# although mpmathify()/arithmetic accept Fractions and the property lists Fraction as a constructor input.
import sys, os; sys.path.insert(0, os.getcwd())
from fractions import Fraction
from mpmath import mp, mpf
mp.prec = 53
bad = False
for q, want in ((Fraction(3, 4), (0, 3, -2, 2)), (Fraction(5, 1), (0, 5, 0, 3)), (Fraction(1, 10), (0, 3602879701896397, -55, 52))):
    try:
        got = mpf(q)._mpf_
    except Exception as e:
        got = "%s: %s" % (type(e).__name__, e)
    print("mpf(%r): observed %s, expected %s" % (q, got, want))
    bad |= got != want
print("VIOLATION" if bad else "ok")
sys.exit(1 if bad else 0)
