import sys, os; sys.path.insert(0, os.getcwd())
# DEBATABLE (outside the domain "magnitudes span fewer than p bits" of C02):
# fsum drops a term lying more than 4*prec bits below the partial sum without
# keeping a sticky bit, so the single final rounding is not that of the exact sum.
from fractions import Fraction
from mpmath import mp, mpf, fsum, fadd
mp.prec = 53
terms = [mpf(1), mpf(2)**-53, mpf(2)**-267]      # each a 1-bit mantissa
exact = sum(Fraction(int(t.man)) * Fraction(2)**t.exp for t in terms)
got = fsum(terms)                                # round-to-nearest
ref = fadd(fadd(terms[0], terms[1], exact=True), terms[2])   # correctly rounded by mpf_add
want = mpf(1) + mpf(2)**-52                      # exact sum is above the tie 1+2^-53
print("terms   :", terms)
print("observed:", repr(got))
print("expected:", repr(want), "(fadd chain gives", repr(ref), ")")
bad = (got != want)
mp._prec_rounding[1] = 'c'
got_c = fsum([mpf(1), mpf(2)**-300])
want_c = mpf(1) + mpf(2)**-52
mp._prec_rounding[1] = 'n'
print("ceiling : fsum([1, 2^-300]) =", repr(got_c), " expected", repr(want_c))
bad = bad or (got_c != want_c)
sys.exit(1 if bad else 0)
