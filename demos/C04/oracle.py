import sys, os; sys.path.insert(0, os.getcwd())
from fractions import Fraction
import random
import mpmath
from mpmath import mp, mpf, mpc
from mpmath.libmp import from_man_exp, fzero, to_rational

def F(x):
    """exact Fraction of an mpf object / raw tuple"""
    t = x._mpf_ if hasattr(x, '_mpf_') else x
    sign, man, exp, bc = t
    if man == 0:
        assert t == fzero, t
        return Fraction(0)
    v = Fraction(man) * (Fraction(2) ** exp)
    return -v if sign else v

def rnd_frac(q, prec, rnd):
    """correctly rounded raw mpf tuple of Fraction q at prec bits"""
    if q == 0:
        return fzero
    neg = q < 0
    a = -q if neg else q
    n, d = a.numerator, a.denominator
    # find e with 2^(prec-1) <= a/2^e < 2^prec
    e = n.bit_length() - d.bit_length() - prec
    def scaled(e):
        return (n << -e, d) if e < 0 else (n, d << e)
    while True:
        nn, dd = scaled(e)
        if nn < dd << (prec-1): e -= 1
        elif nn >= dd << prec: e += 1
        else: break
    m, r = divmod(nn, dd)
    if r:
        if rnd == 'n':
            if 2*r > dd or (2*r == dd and m & 1): m += 1
        elif rnd == 'u': m += 1
        elif rnd == 'd': pass
        elif rnd == 'f':
            if neg: m += 1
        elif rnd == 'c':
            if not neg: m += 1
    return from_man_exp(-m if neg else m, e)

def rand_mpf(maxbits=200, maxexp=300, zero_p=0.03):
    if random.random() < zero_p:
        return mpf(0)
    style = random.random()
    bits = random.choice([1, 2, 3, 5, 10, 24, 52, 53, 54, 64, 100, random.randint(1, maxbits)])
    if style < 0.5:
        m = random.getrandbits(bits) | 1 | (1 << (bits-1))
    elif style < 0.75:
        m = (1 << bits) - 1   # all ones
    else:
        m = (1 << (bits-1)) + 1 if bits > 1 else 1 # 100..001
    if random.random() < 0.5: m = -m
    e = random.choice([0, -bits, random.randint(-maxexp, maxexp), random.randint(-5, 5)])
    return mp.make_mpf(from_man_exp(m, e))

def rand_mpc(**kw):
    return mp.make_mpc((rand_mpf(**kw)._mpf_, rand_mpf(**kw)._mpf_))
