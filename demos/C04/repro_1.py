import sys, os; sys.path.insert(0, os.getcwd())
from mpmath import mp, mpf, mpc
from fractions import Fraction
# z + x (x real), z - x, fadd(z, x), fsub(z, x): imaginary part is returned unrounded
mp.prec = 100
z = mpc(3, 2**60 + 1)          # imaginary part has 61 significant bits
mp.prec = 53
bad = 0
exp_im = mpf(2**60)            # 2**60+1 correctly rounded to 53 bits, any of n/f/d (c/u: 2**60+256)
cases = [('z + 1', z + 1), ('z + mpf(1)', z + mpf(1)), ('1.0 + z', 1.0 + z), ('z - mpf(1)', z - mpf(1)),
         ("fadd(z,1,prec=53,rounding='d')", mp.fadd(z, 1, prec=53, rounding='d')),
         ("fsub(z,1,prec=10,rounding='n')", mp.fsub(z, 1, prec=10, rounding='n')),
         ('control: z + mpc(1,0)', z + mpc(1, 0)), ('control: 1 - z', 1 - z)]
print('z =', repr(z), ' working prec = 53 bits')
for name, r in cases:
    man_bits = r.imag._mpf_[3]
    ok = abs(int(r.imag)) == 2**60   # int() is exact
    print('%-34s imag = %s (%d-bit mantissa)  expected +-%s  %s' % (name, int(r.imag), man_bits, int(exp_im), 'ok' if ok else 'WRONG'))
    if not ok and not name.startswith('control'): bad += 1
print('violations:', bad)
sys.exit(1 if bad else 0)
