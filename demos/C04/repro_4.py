import sys, os; sys.path.insert(0, os.getcwd())
from mpmath import mp, mpf, mpc
from mpmath.libmp import from_man_exp, fzero
# z**3 for z on the real (or imaginary) axis with a 334-bit mantissa: exact result has ~1000 bits (<< 10^4)
# but mpc_pow_int -> mpf_pow_int (bc*n >= 1000) truncates intermediates at prec+12 bits -> misrounding.
def icbrt(x):
    r = 1 << (x.bit_length()//3 + 1)
    while True:
        t = (2*r + x//(r*r))//3
        if t >= r: return r
        r = t
prec = int(sys.argv[1]) if len(sys.argv) > 1 else 53
X = (2**prec + 1) << (999 - prec)                # (1 + 2^-prec) * 2^999: midpoint of 1 and 1+2^(1-prec), scaled
m = icbrt(X) + 1                                  # smallest 334-bit integer with m**3 > X
m += (m % 2 == 0)                                 # keep it odd so the mantissa really has 334 bits
assert m**3 > X and (m-2)**3 <= X and m.bit_length() == 334
mp.prec = prec
bad = 0
for name, z, k in [('real axis', mp.make_mpc((from_man_exp(m, -333), fzero)), 0),
                   ('imag axis', mp.make_mpc((fzero, from_man_exp(m, -333))), 1)]:
    got = (z**3)._mpc_[k]
    exp = from_man_exp(m**3, -999, prec, 'n')      # exact cube, correctly rounded; a**3 is just above the midpoint
    if k: exp = (1,) + exp[1:]                    # (i a)**3 = -i a**3
    print(name, ': a = %d * 2^-333, prec = %d' % (m, prec))
    print('   (a)**3 component: got', got, ' expected', exp, 'ok' if got == exp else 'WRONG')
    bad += got != exp
sys.exit(1 if bad else 0)
