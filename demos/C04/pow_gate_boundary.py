# C04 violation 1: (1+i)**20000 == 2**10000 exactly (a 1-bit result of magnitude 10^4 bits),
# but mpc_pow_int's exact path is skipped (exact_size = n*1 = 20000 is not < 20000) and
# exp(n*log z) returns a non-zero imaginary part.
import sys, os; sys.path.insert(0, os.getcwd())
from mpmath import mp, mpc, mpf
mp.prec = 53
z, n = mpc(1, 1), 20000
got = z**n
# oracle: (1+i)^2 = 2i  =>  (1+i)^20000 = (2i)^10000 = 2^10000 * i^10000 = 2^10000
exp_re, exp_im = mpf(2)**10000, mpf(0)
print("input   : mpc(1,1) **", n, " prec=53 round-nearest")
print("observed: re =", got.real, " im =", got.imag)
print("expected: re =", exp_re, " im =", exp_im)
print("for comparison n=19996 (exact path):", mpc(1, 1)**19996)
bad = (got.real != exp_re) or (got.imag != exp_im)
print("VIOLATION" if bad else "ok")
sys.exit(1 if bad else 0)
