# (1+i)**n = (2i)**(n/2) is an exact power of two for even n, but for n >= 24000
# mpc_pow_int leaves its exact path (exact_size = n*max(bc) >= 24000) and goes
# through exp(n*log z): the component that is exactly 0 comes out nonzero.
import sys, os; sys.path.insert(0, os.getcwd())
from mpmath import mp, mpc, mpf
mp.prec = 53
bad = 0
for z, n in [(mpc(1, 1), 24000), (mpc(1, 1), 24002), (mpc(-1, 1), 30000), (mpc(0.5, -0.5), 24004)]:
    r = z**n
    # exact oracle with Python ints: z = 2^k(a+bi), a,b = +-1
    k = 0 if abs(z.real) == 1 else -1
    a, b = int(z.real / mpf(2)**k), int(z.imag / mpf(2)**k)
    re, im = 1, 0
    for _ in range(n):
        re, im = re*a - im*b, re*b + im*a          # exact integers (powers of two)
    exp_re, exp_im = mpf(re) * mpf(2)**(k*n), mpf(im) * mpf(2)**(k*n)   # 1-bit values: exact
    ok = (r.real == exp_re and r.imag == exp_im)
    print("z=%s n=%d" % (z, n))
    print("  observed: re=%s im=%s" % (mp.nstr(r.real, 17), mp.nstr(r.imag, 17)))
    print("  expected: re=%s im=%s  %s" % (mp.nstr(exp_re, 17), mp.nstr(exp_im, 17), "OK" if ok else "VIOLATION"))
    bad += not ok
r = mpc(1, 1)**23999   # just below the threshold: exact path, correct
print("control n=23999:", r.real == mpf(2)**11999 and r.imag == -mpf(2)**11999)
sys.exit(1 if bad else 0)
