import sys, os; sys.path.insert(0, os.getcwd())
from mpmath import mp, mpf, mpc
# Negative integer powers with large |n|: mpc_pow_int -> exp(n*log z) with only prec+14 working bits,
# so the relative error grows like |n*log|z|| * 2**-(prec+14): hundreds of ulps and more.
# Oracle: (1+i)**8 == 16, hence (1+i)**(-8k) == 2**(-4k) exactly (real, imag part 0).
bad = 0
for prec, n in [(53, -8*10**6), (53, -8*10**9), (113, -8*10**6), (10, -8*10**6), (53, -8*10**3)]:
    mp.prec = prec
    got = mpc(1, 1)**n
    exact = mpf(2)**(n//2)                      # exactly representable
    mp.prec = prec + 50
    relerr = abs(got - exact) / exact           # modulus-relative error
    ulps = relerr * mpf(2)**prec
    flag = 'ok' if ulps <= 4 else 'WRONG'
    print('prec=%3d  (1+1j)**(%d): got/exact - 1 = (%s, %s)   |err|/|exact| = %s units of 2^-prec  %s'
          % (prec, n, mp.nstr(got.real/exact - 1, 5), mp.nstr(got.imag/exact, 5), mp.nstr(ulps, 6), flag))
    if n < -10**4: bad += (flag == 'WRONG')
sys.exit(1 if bad else 0)
