# C04 violation 3: z + x, z - x, fadd/fsub(z, x) with x real (mpf/int/float) return the
# imaginary part of z unrounded (mpc_add_mpf / mpc_sub_mpf ignore prec for it),
# whereas z + mpc(x, 0) rounds it.
import sys, os; sys.path.insert(0, os.getcwd())
from mpmath import mp, mpc, mpf
mp.prec = 100
z = mpc(1, mpf(1)/3)                  # imaginary part carries 100 bits
mp.prec = 53
exp_im = +z.imag                      # 1/3 (100 bits) correctly rounded to 53 bits
bad = False
for name, got in [("z + 1", z + 1), ("z - mpf(1)", z - mpf(1)), ("1.0 + z", 1.0 + z),
                  ("fadd(z, 1, prec=10, rounding='f')", mp.fadd(z, 1, prec=10, rounding='f')),
                  ("z + mpc(1,0)  [control]", z + mpc(1, 0))]:
    e = exp_im if 'prec=10' not in name else mp.fadd(z.imag, 0, prec=10, rounding='f')
    ok = got.imag == e
    print("%-36s imag mantissa bits: observed %3d, expected %3d  %s" %
          (name, got.imag._mpf_[3], e._mpf_[3], "ok" if ok else "WRONG (unrounded)"))
    if 'control' not in name: bad |= not ok
print("input z =", repr(z), " working prec 53")
print("VIOLATION" if bad else "ok")
sys.exit(1 if bad else 0)
