# C04 violation 4 (libmp level, directed rounding): mpc_pow_int on the imaginary axis
# rounds v = b**n in the requested direction and then negates it for n%4 in (2,3),
# so 'f' and 'c' round the component the wrong way.
import sys, os; sys.path.insert(0, os.getcwd())
from mpmath.libmp import mpc_pow_int, from_int, from_man_exp, fzero, to_int
z = (fzero, from_int(3))              # 3i
n, prec = 6, 5                        # (3i)^6 = -729 ; floor to 5 bits = -736, ceil = -704
bad = False
for rnd, expected in [('f', -736), ('c', -704)]:
    re, im = mpc_pow_int(z, n, prec, rnd)
    got = to_int(re)
    print("mpc_pow_int(3i, 6, prec=5, rnd=%r): observed re = %d, expected %d, im = %s" % (rnd, got, expected, im))
    bad |= (got != expected) or im != fzero
print("VIOLATION" if bad else "ok")
sys.exit(1 if bad else 0)
