# z + x, x + z, z - x and fadd/fsub(z, x) with x real (mpf/int/float) round only the
# real part: mpc_add_mpf / mpc_sub_mpf return the imaginary part of z untouched, so
# it keeps more than prec bits (x - z, z + mpc(x), z*x and +z do round it).
import sys, os; sys.path.insert(0, os.getcwd())
from mpmath import mp, mpc, mpf
mp.prec = 100
z = mpc(mpf(2)**80 + 1, mpf(2)**80 + 1)          # both parts need 81 bits
mp.prec = 53
exp_im = +z.imag                                  # 2^80+1 rounded to 53 bits = 2^80
print("z =", repr(z), " prec = 53; expected imaginary part man =", exp_im._mpf_[1], "(1 bit)")
cases = [("z + 1", z + 1), ("1 + z", 1 + z), ("z + mpf(1)", z + mpf(1)), ("z + 0.0", z + 0.0),
         ("z - 1", z - 1), ("fadd(z,1,rounding='u',prec=10)", mp.fadd(z, 1, rounding='u', prec=10)),
         ("fsub(z,1,rounding='d')", mp.fsub(z, 1, rounding='d'))]
controls = [("z + mpc(1)", z + mpc(1)), ("-(1 - z)", -(1 - z)), ("z * 1", z * 1), ("+z", +z)]
bad = 0
for name, r in cases + controls:
    bits = r.imag._mpf_[3]; rbits = r.real._mpf_[3]
    viol = bits > 53
    bad += viol
    print("%-34s real bits=%3d imag bits=%3d  %s" % (name, rbits, bits,
          "VIOLATION: imaginary part not rounded" if viol else "ok"))
sys.exit(1 if bad else 0)
