import sys, os; sys.path.insert(0, os.getcwd())
from mpmath import mp, mpf, mpc, ldexp
from mpmath.libmp import from_man_exp
# z**n, n >= 0, exact result ~5000 bits (< 10^4), but mpc_pow_int's size estimate n*(|de|+max(bc)) >= 10000
# sends it to exp(n*log z) at prec+10 bits: components are not correctly rounded (sometimes garbage).
bad = 0
def show(tag, got, exp):
    global bad
    ok = got._mpc_ == exp
    print(tag, '\n   got     ', got._mpc_, '\n   expected', exp, 'ok' if ok else 'WRONG'); bad += not ok
# (a) (1+i)**10000 == 2**5000 exactly  ((1+i)**8 == 16)
for prec in (53, 10, 3):
    mp.prec = prec
    show('(1+1j)**10000 at prec=%d' % prec, mpc(1, 1)**10000, (from_man_exp(1, 5000), from_man_exp(0, 0)))
mp.prec = 53
show('control (exact path): (1+1j)**9992', mpc(1, 1)**9992, (from_man_exp(1, 4996), from_man_exp(0, 0)))
# (b) generic operand: exact result has 5136 bits; oracle = exact integer arithmetic
a, b, n = 1 << 19, -830191, 258                      # z = (a + b*i) * 2**-1510
z = mpc(ldexp(1, -1491), ldexp(-830191, -1510))
re, im = 1, 0
for _ in range(n): re, im = re*a - im*b, re*b + im*a
print('exact result bits:', max(abs(re).bit_length(), abs(im).bit_length()))
exp = (from_man_exp(re, -1510*n, 53, 'n'), from_man_exp(im, -1510*n, 53, 'n'))
got = z**n
show('(2^-1491 - 830191*2^-1510 i)**258 at prec=53', got, exp)
print('   error in ulps: re %d, im %d' % (abs(got._mpc_[0][1] - 2*exp[0][1]), abs(got._mpc_[1][1] - exp[1][1])))
sys.exit(1 if bad else 0)
