# C04 violation 2: z**n for an mpc on the real (or imaginary) axis is delegated to
# mpf_pow_int, which truncates intermediate products to prec+4*bitcount(n)+4 bits
# once bc*n >= 1000, so the result is not correctly rounded.
import sys, os; sys.path.insert(0, os.getcwd())
from fractions import Fraction as F
from mpmath import mp, mpc
mp.prec = 53
x, n = 5831597724109517 / 2**52, 22   # x is an ordinary 53-bit float, about 1.2949
bad = False
for z, sgn in [(mpc(x, 0), 1), (mpc(0, x), -1)]:      # (ix)^22 = -x^22
    w = z**n
    exact = sgn * F(x)**n
    e = -44                            # 2^52 <= |exact|/2^e < 2^53
    q = abs(exact) / F(2)**e; m = q.numerator // q.denominator; r = q - m
    assert 2**52 <= m < 2**53
    if r > F(1, 2) or (r == F(1, 2) and m & 1): m += 1
    expected = sgn * m * F(2)**e       # correctly rounded (nearest) 53-bit value
    s, man, ex, bc = w.real._mpf_; got = (-man if s else man) * F(2)**ex
    print("input   :", repr(z), "**", n, "(prec 53, nearest)")
    print("observed real part:", float(got).hex(), " imag part:", w.imag)
    print("expected real part:", float(expected).hex(),
          " (error of observed: %.12f ulp)" % float(abs(got-exact)/F(2)**e))
    bad |= (got != expected) or (w.imag != 0)
print("VIOLATION" if bad else "ok")
sys.exit(1 if bad else 0)
