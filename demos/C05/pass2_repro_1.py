import sys, os; sys.path.insert(0, os.getcwd())
# mpf/mpc vs an exact rational (mpq, Fraction, Decimal): the rational is ROUNDED to mp.prec before comparing
from fractions import Fraction
from mpmath import mp, mpf, mpc
from mpmath.rational import mpq
mp.prec = 53
x = mpf(1)/3                      # exact value 6004799503160661 * 2**-54  <  1/3
exact_x = Fraction(x.man, 2**(-x.exp))
bad = 0
for q in (mpq(1,3), Fraction(1,3)):
    obs_eq = (x == q); exp_eq = (exact_x == Fraction(1,3))
    print("x =", repr(x), " q =", repr(q), " x==q observed", obs_eq, "expected", exp_eq,
          " hash(x)==hash(q):", hash(x) == hash(q))
    if obs_eq != exp_eq: bad = 1
    if obs_eq and hash(x) != hash(q): bad = 1
q = mpq(1,3)
obs = (x < q, x <= q, q > x, mpc(x) == q)
exp = (True, True, True, False)
print("(x<q, x<=q, q>x, mpc(x)==q) observed", obs, "expected", exp)
if obs != exp: bad = 1
d = {Fraction(1,3): 'v'}
print("x == Fraction(1,3) but x in {Fraction(1,3):..}:", x in d)
sys.exit(bad)
