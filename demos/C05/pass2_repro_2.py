import sys, os; sys.path.insert(0, os.getcwd())
# lazy constants of two contexts: == is asymmetric and equal objects hash differently
import mpmath
from mpmath import mp
mp.prec = 53
c2 = mpmath.MPContext(); c2.prec = 100
a = c2.pi          # constant of a 100-bit context
b = +mp.pi         # plain 53-bit mpf
bad = 0
r1, r2 = (a == b), (b == a)
print("c2.pi == +mp.pi ->", r1, "   +mp.pi == c2.pi ->", r2, "  expected: the same answer both ways")
if r1 != r2: bad = 1
o1, o2 = (a > b), (b < a)
print("c2.pi > +mp.pi ->", o1, "   +mp.pi < c2.pi ->", o2, "  expected: the same answer both ways")
if o1 != o2: bad = 1
e = (c2.pi == mp.pi); h = (hash(c2.pi) == hash(mp.pi))
print("c2.pi == mp.pi ->", e, "  hash equal ->", h, "  expected: equal objects hash equally")
if e and not h: bad = 1
if r2 and hash(a) != hash(b):
    print("+mp.pi == c2.pi is True but hashes differ:", hash(b), hash(a)); bad = 1
sys.exit(bad)
