import sys, os; sys.path.insert(0, os.getcwd())
from mpmath import mp, mpf, mpc
# polyroots: two conjugate pairs with equal |Im| and real parts closer than 8*tol are interleaved
mp.prec = 53
coeffs = [2**100, 0, 2**101, 0, 2**100 + 1]   # (x^2+1)^2 + 2^-100: roots +-2^-51 +- i(1+...)
print('coeffs = [2**100, 0, 2**101, 0, 2**100+1], prec = 53, extraprec = 60')
roots = mp.polyroots(coeffs, extraprec=60)
for r in roots: print('   ', r)
print('expected: adjacent elements (0,1) and (2,3) are conjugates of each other')
bad = False
for k in (0, 2):
    a, b = roots[k], roots[k+1]
    if mp.im(a)*mp.im(b) > 0: bad = True; print('elements %d,%d have imaginary parts of the same sign' % (k, k+1))
sys.exit(1 if bad else 0)
