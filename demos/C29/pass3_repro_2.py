import sys, os; sys.path.insert(0, os.getcwd())
# mnewton with numerical derivatives leaves an 8-fold root and fails (100 bits)
from mpmath import mp, mpf, polyval, findroot
from math import comb
mp.prec = 100
c = [mpf((-2)**k*comb(8, k)) for k in range(9)]   # (x-2)^8, exact coefficients
x0 = mpf('2.00001')
bound = mpf(2)**(4 - mpf(mp.prec)/8)
print("f=(x-2)^8 expanded, solver='mnewton' (numerical derivatives), prec=100, x0 =", x0)
try:
    x = findroot(lambda x: polyval(c, x), x0, solver='mnewton')
    print("observed:", x, " |x-2| =", abs(x-2))
    bad = abs(x-2) > bound
except Exception as e:
    print("observed:", type(e).__name__, str(e).split('\n')[0][:100])
    bad = True
print("expected: a value within 2^(4-p/m) = %s of 2 (x0 itself already is), no exception" % bound)
sys.exit(1 if bad else 0)
