import sys, os; sys.path.insert(0, os.getcwd())
# mnewton with user-supplied derivatives fails next to a 4-fold root (53 bits)
from mpmath import mp, mpf, polyval, findroot
mp.prec = 53
c  = [1, -4, 6, -4, 1]          # (x-1)^4, exact coefficients
c1 = [4, -12, 12, -4]           # f'
c2 = [12, -24, 12]              # f''
x0 = mpf('1.01')
print("f=(x-1)^4 expanded, solver='mnewton', df/d2f supplied, prec=53, x0 =", x0)
bound = mpf(2)**(4 - mpf(mp.prec)/4)
try:
    x = findroot(lambda x: polyval(c, x), x0, solver='mnewton',
                 df=lambda x: polyval(c1, x), d2f=lambda x: polyval(c2, x))
    print("observed:", x, " |x-1| =", abs(x-1))
    bad = abs(x-1) > bound
except Exception as e:
    print("observed:", type(e).__name__, str(e).split('\n')[0])
    bad = True
print("expected: a value within 2^(4-p/m) = %s of 1, no exception" % bound)
sys.exit(1 if bad else 0)
