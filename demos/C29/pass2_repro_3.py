import sys, os; sys.path.insert(0, os.getcwd())
from mpmath import mp, mpf, mpc
# mnewton: after landing on the root, the next step is rounding noise of size O(1/m): the iteration oscillates
mp.prec = 53
c, d1 = [1, -4, 6, -4, 1], [4, -12, 12, -4]          # (x-1)^4 and its derivative
f, df = (lambda x: mp.polyval(c, x)), (lambda x: mp.polyval(d1, x))
bound = mpf(2)**(4-mpf(53)/4)
print('A: f = (x-1)^4 in coefficient form, x0 = 1.1, prec = 53, solver=mnewton, df supplied; expected |x-1| < %s' % mp.nstr(bound, 5))
bad = False
try:
    x = mp.findroot(f, mpf('1.1'), solver='mnewton', df=df)
    print('observed:', x); bad |= not abs(x-1) < bound
except Exception as e:
    print('observed: %s: %s' % (type(e).__name__, str(e).split(chr(10))[0][:90])); bad = True
mp.prec = 35
c = [1, 11, 49, 115, 155, 121, 51, 9, 0]             # x (x+1)^5 (x+3)^2
n = len(c)-1; d1 = [a*(n-i) for i, a in enumerate(c[:-1])]
f, df = (lambda x: mp.polyval(c, x)), (lambda x: mp.polyval(d1, x))
print('B: f = x (x+1)^5 (x+3)^2, x0 = -1.001, prec = 35; expected the nearby root -1 (error < 0.125)')
try:
    x = mp.findroot(f, mpf('-1.001'), solver='mnewton', df=df)
    print('observed:', x); bad |= not abs(x+1) < mpf(2)**(4-mpf(35)/5)
except Exception as e:
    print('observed: %s: %s' % (type(e).__name__, str(e).split(chr(10))[0][:90])); bad = True
sys.exit(1 if bad else 0)
