import sys, os; sys.path.insert(0, os.getcwd())
from mpmath import mp, mpf, mpc
# DEBATABLE: bracketing solvers leave the bracket when there is no sign change
mp.prec = 53
f = lambda x: x*x - 1
bad = False
for s in ('illinois', 'pegasus', 'anderson', 'ridder'):
    x = mp.findroot(f, (2, 3), solver=s)
    print('findroot(x^2-1, (2, 3), solver=%r) = %s ; expected a point in [2, 3] or an exception' % (s, x))
    bad |= not (2 <= x <= 3)
sys.exit(1 if bad else 0)
