import sys, os; sys.path.insert(0, os.getcwd())
# polyroots with default arguments on repeated roots: no NoConvergence, wrong order, err 1e5..1e6 too small
from mpmath import mp, mpf, mpc, polyroots
mp.prec = 53
bad = False
for coeffs, true in [([1, -3, 0, 4], [-1, 2, 2]),            # (x+1)(x-2)^2
                     ([1, 0, 2, 0, 1], [1j, 1j, -1j, -1j]),   # (x^2+1)^2
                     ([1, 2, 1], [-1, -1])]:                  # (x+1)^2
    roots, err = polyroots(coeffs, error=True)
    worst = max(min(abs(r - t) for t in true) for r in roots)
    cplx = [r for r in roots if isinstance(r, mpc) and r.imag != 0]
    pairs_ok = len(cplx) % 2 == 0 and all(abs(cplx[i] - cplx[i+1].conjugate()) <= 4*err
                                         for i in range(0, len(cplx) - 1, 2))
    print(coeffs, "->", roots, "err =", err)
    print("   max root error = %s (= %s * err); complex roots form adjacent conjugate pairs: %s"
          % (mp.nstr(worst, 3), mp.nstr(worst/err, 3), pairs_ok))
    if worst > 4*err or not pairs_ok: bad = True
print("expected: NoConvergence, or roots within err with real roots first and conjugate pairs adjacent")
sys.exit(1 if bad else 0)
