import sys, os; sys.path.insert(0, os.getcwd())
from mpmath import mp, mpf, mpc
# polyroots: complex pair with tol <= |Im| <= 8*tol is ranked together with the real roots -> real roots not first
mp.prec = 53
c = 2.0**-102
coeffs = [1, -1, c, -c]                # (x^2 + 2^-102)(x - 1): roots 1, +-2^-51 i
print('coeffs =', coeffs, ' prec = 53')
roots = mp.polyroots(coeffs)
print('observed :', roots)
print('expected : real root 1.0 first, then the conjugate pair +-4.44e-16j')
seen_complex = False; bad = False
for r in roots:
    if mp.im(r) != 0: seen_complex = True
    elif seen_complex: bad = True
sys.exit(1 if bad else 0)
