import sys, os; sys.path.insert(0, os.getcwd())
from mpmath import *
# bracketing solvers return a point outside the bracket when there is no sign change
mp.dps = 15
f = lambda x: x*x - 1
bad = False
for s in ('illinois', 'pegasus', 'anderson', 'ridder'):
    x = findroot(f, (2, 3), solver=s)
    print(s, 'bracket (2, 3) ->', x, ' expected: a point in [2, 3] or an exception')
    bad = bad or not (2 <= x <= 3)
try:
    x = findroot(lambda x: x*x + 1, (-1, 2), solver='ridder'); print('ridder x^2+1 ->', x)
except Exception as e:
    print('ridder x^2+1 on (-1,2) ->', type(e).__name__, e, '(expected ValueError)')
    bad = bad or isinstance(e, TypeError)
print('VIOLATION' if bad else 'ok'); sys.exit(1 if bad else 0)
