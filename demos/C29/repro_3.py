import sys, os; sys.path.insert(0, os.getcwd())
from mpmath import *
# polyroots error estimate ignores the final rounding of large roots: x^2 - 2e10
mp.dps = 15
c = [1, 0, -2e10]
roots, err = polyroots(c, error=True)
mp.dps = 50
t = sqrt(mpf(2e10)); true_err = max(abs(abs(z) - t) for z in roots)
resid = max(abs(polyval(c, z) / polyval(c, z, derivative=True)[1]) for z in roots)
mp.dps = 15
print('coeffs', c, 'roots', roots)
print('returned err', err, ' true max error', true_err, ' |p(r)/p\'(r)|', resid)
print('expected: err >= true error ~ |r|*2^-53 = 1.6e-11')
bad = true_err > 1000*err
print('VIOLATION' if bad else 'ok'); sys.exit(1 if bad else 0)
