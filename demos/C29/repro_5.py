import sys, os; sys.path.insert(0, os.getcwd())
from mpmath import *
# mnewton: the d2f keyword is replaced by df (d2f = kwargs['df']); d2f alone -> KeyError
mp.dps = 30
f = lambda x: (x - 2)**2
df = lambda x: 2*(x - 2)
d2f = lambda x: mpf(2)
bound = mpf(2)**(4 - mpf(mp.prec)/2)
out = []
for kw in ({}, {'df': df}, {'df': df, 'd2f': d2f}, {'d2f': d2f}):
    try:
        x = findroot(f, 2.1, solver='mnewton', **kw)
        out.append(abs(x - 2) < bound); print(sorted(kw), '->', x, 'error', nstr(abs(x - 2), 5))
    except Exception as e:
        out.append(False); print(sorted(kw), '->', type(e).__name__, str(e)[:70])
print('expected: root 2.0 with error <', nstr(bound, 5), 'in all four cases')
bad = not all(out)
print('VIOLATION' if bad else 'ok'); sys.exit(1 if bad else 0)
