import sys, os; sys.path.insert(0, os.getcwd())
from mpmath import *
# multiplicity: loop cap returns maxsteps-1; absolute tolerance eps**0.8 ignores scale
mp.dps = 15
cases = [('(x-1)^10', lambda x: (x - 1)**10, 1, 10, {}),
         ('(x-1)^12', lambda x: (x - 1)**12, 1, 12, {}),
         ('(x-1)^5, maxsteps=5', lambda x: (x - 1)**5, 1, 5, {'maxsteps': 5}),
         ('(x-1)^20, maxsteps=20', lambda x: (x - 1)**20, 1, 20, {'maxsteps': 20}),
         ('1e-14*(x-1)^2', lambda x: mpf('1e-14')*(x - 1)**2, 1, 2, {}),
         ('1e-14*(x-1)', lambda x: mpf('1e-14')*(x - 1), 1, 1, {})]
bad = False
for name, f, r, m, kw in cases:
    got = multiplicity(f, r, **kw)
    print(name, 'root', r, 'observed', got, 'expected', m)
    bad = bad or got != m
print('VIOLATION' if bad else 'ok'); sys.exit(1 if bad else 0)
