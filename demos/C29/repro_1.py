import sys, os; sys.path.insert(0, os.getcwd())
from mpmath import *
# polyroots ordering: real-coefficient quartic (x^2-6x+10)(x^2+6x+10), roots 3+-i, -3+-i
mp.dps = 15
c = [1, 0, -16, 0, 100]
r = polyroots(c)
print('coeffs', c); print('observed', r)
print('expected: complex roots as adjacent conjugate pairs, e.g. [-3+1j, -3-1j, 3+1j, 3-1j]')
bad = any(abs(r[k] - conj(r[k+1])) > 1e-10 for k in range(0, 4, 2))
c2 = [1] + [0]*15 + [-1]   # x^16 - 1
r2 = [z for z in polyroots(c2) if im(z) != 0]
bad2 = any(abs(r2[k] - conj(r2[k+1])) > 1e-10 for k in range(0, len(r2), 2))
print('x^16-1 complex part:', [nstr(z, 4) for z in r2])
print('VIOLATION' if (bad or bad2) else 'ok', bad, bad2)
sys.exit(1 if (bad or bad2) else 0)
