import sys, os; sys.path.insert(0, os.getcwd())
from mpmath import *
# findroot(verify=True) returns nan: the check norm(f(x))**2 > tol is False for nan
mp.dps = 15
f = lambda x: x*log(x)          # f(0) = 0*(-inf) = nan; true roots: 1 (and limit 0)
bad = False
for solver, x0 in (('secant', 0), ('muller', 0), ('illinois', (0, 0.5)), ('ridder', (0, 0.5)),
                   ('anderson', (0, 0.5))):
    x = findroot(f, x0, solver=solver)
    print(solver, x0, '->', x, ' f(x) =', f(x))
    bad = bad or isnan(x) or not (abs(f(x))**2 <= 2.2e-19)
x = findroot(lambda x: x*x - 2, inf)
print('x^2-2 from inf ->', x); bad = bad or isnan(x)
print('expected: a root with |f(x)|^2 <= tol, or ValueError')
print('VIOLATION' if bad else 'ok'); sys.exit(1 if bad else 0)
