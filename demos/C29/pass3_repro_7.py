import sys, os; sys.path.insert(0, os.getcwd())
# polyroots, default arguments, roots of the size of eps: a lone non-real root of a real cubic
from mpmath import mp, mpf, mpc, polyroots
mp.prec = 40
coeffs = [mpf('1.0'), mpf('-4.9999999999924e-12'), mpf('1.0999999999986e-23'), mpf('-1.4999999999959e-35')]
# = (x - 3e-12)(x^2 - 2e-12 x + 5e-24) up to rounding: roots 3e-12, (1 +- 2j)e-12
roots, err = polyroots(coeffs, error=True)
print("coeffs", coeffs, "prec 40")
print("observed:", roots, "err", err)
cplx = [r for r in roots if isinstance(r, mpc) and r.imag != 0]
print("number of non-real roots:", len(cplx), " expected: even (conjugate pairs), e.g. 3e-12, (1+-2j)e-12")
sys.exit(1 if len(cplx) % 2 else 0)
