import sys, os; sys.path.insert(0, os.getcwd())
from mpmath import mp, mpf, mpc
# polyroots error estimate on a double root is too small by a factor ~1e6
mp.prec = 53
coeffs = [1, 10, 25]                   # (x+5)^2, exact root -5
roots, err = mp.polyroots(coeffs, error=True)
print('coeffs =', coeffs, ' prec = 53, defaults')
print('observed roots:', [mp.nstr(r, 17) for r in roots], ' err =', mp.nstr(err, 5))
mp.prec = 400
bad = False
for r in roots:
    dist = abs(r + 5)                  # distance to the only root of the polynomial
    res = abs(mp.polyval(coeffs, r)); dres = abs(mp.polyval([2, 10], r))
    print('  root %s: distance to true root = %s = %s * err ; |P(r)/P\'(r)| = %s' % (mp.nstr(r, 17), mp.nstr(dist, 5), mp.nstr(dist/err, 5), mp.nstr(res/dres, 5)))
    if dist > 100*err: bad = True
print('expected: distance to the true root (and Newton correction |P/P\'|) of the order of err')
sys.exit(1 if bad else 0)
