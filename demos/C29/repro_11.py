import sys, os; sys.path.insert(0, os.getcwd())
from mpmath import *
import signal
# MDNewton damping loop never terminates when f yields nan (non-converging start)
def h(*a): raise TimeoutError
signal.signal(signal.SIGALRM, h); signal.alarm(5)
mp.dps = 15
f = lambda x, y: (x*log(x) + y, x - y)     # f(0,0) = (nan, 0)
try:
    r = findroot(f, (0, 0)); print('returned', r); bad = any(isnan(v) for v in r)
except TimeoutError:
    print('findroot(f, (0,0)) with f=(x*log(x)+y, x-y): no return after 5 s (infinite loop)'); bad = True
except Exception as e:
    print(type(e).__name__, e); bad = False
print('expected: ValueError / ZeroDivisionError or a verified root')
print('VIOLATION' if bad else 'ok'); sys.exit(1 if bad else 0)
