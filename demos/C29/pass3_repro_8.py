import sys, os; sys.path.insert(0, os.getcwd())
# multidimensional findroot never returns when one component is nan (damping loop halves l forever)
import signal
from mpmath import mp, nan, findroot
mp.prec = 53
class TO(Exception): pass
def h(*a): raise TO()
signal.signal(signal.SIGALRM, h); signal.alarm(10)
print("findroot(lambda x, y: [x-1, nan], (3, 5))")
try:
    r = findroot(lambda x, y: [x - 1 + 0*y, nan], (3, 5)); print("observed:", r); bad = True
except TO:
    print("observed: no return within 10 s (infinite loop in MDNewton damping)"); bad = True
except Exception as e:
    print("observed:", type(e).__name__); bad = False
print("expected: an exception (ValueError) as for the scalar solvers")
sys.exit(1 if bad else 0)
