import sys, os; sys.path.insert(0, os.getcwd())
from mpmath import *
# the verified root does not satisfy |f(x)|^2 <= tol at the caller's working precision
mp.dps = 15
f = lambda x: 1e8*(x - sqrt(2))      # sqrt(2) is evaluated at the precision in force
x = findroot(f, 1)
tol = mpf(2)**(-mp.prec - 9)         # default tol used inside findroot (eps at prec+20, times 2^10)
print('x =', x, ' mantissa bits of x:', x.man_exp[0].bit_length(), '(mp.prec = %d)' % mp.prec)
print('|f(x)|^2 at working precision =', abs(f(x))**2, ' tol =', tol)
bad = abs(f(x))**2 > tol or x.man_exp[0].bit_length() > mp.prec
print('expected: |f(x)|^2 <= tol when the caller evaluates f(x); x rounded to mp.prec')
print('VIOLATION' if bad else 'ok'); sys.exit(1 if bad else 0)
