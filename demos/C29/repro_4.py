import sys, os; sys.path.insert(0, os.getcwd())
from mpmath import *
# real polynomial with a repeated real root: complex roots not in conjugate pairs
mp.dps = 15
c = [1, 15, 72, 108]            # (x+6)^2 (x+3)
r = polyroots(c, maxsteps=200, extraprec=20)
print(c, '->', r)
cx = [z for z in r if im(z) != 0]
bad1 = len(cx) % 2 == 1 or any(cx[k] != conj(cx[k+1]) for k in range(0, len(cx) - 1, 2))
mp.prec = 30
c2 = [1, 27, 282, 1432, 3552, 3456]   # (x+4)^3 (x+6)(x+9)
r2 = polyroots(c2, maxsteps=1000, extraprec=120)
print(c2, '->', r2)
cx2 = [z for z in r2 if im(z) != 0]
bad2 = len(cx2) % 2 == 1
print('expected: all roots real (-6,-6,-3 / -9,-6,-4,-4,-4) or complex ones in exact conjugate pairs')
print('non-conjugate pair:', bad1, ' odd number of complex roots:', bad2)
bad = bad1 or bad2
print('VIOLATION' if bad else 'ok'); sys.exit(1 if bad else 0)
