import sys, os; sys.path.insert(0, os.getcwd())
# multiplicity of a double root known to working precision (root = sqrt(n) rounded)
from mpmath import mp, sqrt, multiplicity
mp.prec = 53
bad = 0; tot = 0; ex = []
for n in range(2, 400):
    if int(n**0.5)**2 == n: continue
    tot += 1
    got = multiplicity(lambda x: (x*x - n)**2, sqrt(n))
    if got != 2:
        bad += 1
        if len(ex) < 5: ex.append((n, got))
print("f=(x^2-n)^2, root=sqrt(n) at 53 bits: wrong multiplicity in %d of %d cases, e.g. (n, got) = %s; expected 2" % (bad, tot, ex))
sys.exit(1 if bad else 0)
