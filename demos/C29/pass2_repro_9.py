import sys, os; sys.path.insert(0, os.getcwd())
from mpmath import mp, mpf, mpc
# multiplicity overcounts a simple root when the derivative there is below eps^0.8
bad = False
for prec, n, s in ((53, 16, 32), (30, 20, 32), (30, 12, 16)):
    mp.prec = prec
    f = lambda x: mp.fprod((x - mpf(k)/s) for k in range(1, n+1))
    root = mpf(n//2)/s                 # exactly representable simple root
    got = mp.multiplicity(f, root)
    print('prec %d: multiplicity(prod_{k=1..%d}(x-k/%d), %s) = %d, expected 1   (f\'(root) = %s)' % (prec, n, s, root, got, mp.nstr(mp.diff(f, root), 5)))
    bad |= got != 1
sys.exit(1 if bad else 0)
