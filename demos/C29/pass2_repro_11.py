import sys, os; sys.path.insert(0, os.getcwd())
from mpmath import mp, mpf, mpc
# DEBATABLE: polyroots with coinciding initial approximations returns the same root twice and misses another
mp.prec = 53
roots, err = mp.polyroots([1, -3, 2], roots_init=[1, 1], error=True)
print('polyroots([1,-3,2], roots_init=[1,1]) =', roots, 'err =', err, '; expected [1.0, 2.0]')
bad = not any(abs(r - 2) < 1e-10 for r in roots)
roots = mp.polyroots([1, -6, 11, -6], roots_init=[2, 2, 2])
print('polyroots([1,-6,11,-6], roots_init=[2,2,2]) =', roots, '; expected [1.0, 2.0, 3.0]')
bad |= not any(abs(r - 3) < 1e-10 for r in roots)
sys.exit(1 if bad else 0)
