import sys, os; sys.path.insert(0, os.getcwd())
from mpmath import mp, mpf, mpc
# polyroots on a real polynomial with a double root: a complex root is returned without its conjugate
mp.prec = 53
coeffs = [1, 0, -12, -16]              # (x+2)^2 (x-4)
roots, err = mp.polyroots(coeffs, error=True)
print('coeffs =', coeffs, ' prec = 53, defaults')
print('observed:', roots, ' err =', err)
print('expected: real roots first, every non-real root immediately next to its conjugate')
cx = [r for r in roots if mp.im(r) != 0]
bad = len(cx) % 2 == 1 or any(mp.im(cx[k])*mp.im(cx[k+1]) > 0 for k in range(0, len(cx)-1, 2))
mp.prec = 64
r2 = mp.polyroots([1, -6, 4, 24, -32], maxsteps=200)     # (x-2)^2 (x+2)(x-4)
print('prec 64, [1,-6,4,24,-32], maxsteps=200 ->', r2)
cx = [r for r in r2 if mp.im(r) != 0]
bad |= len(cx) % 2 == 1 or any(mp.im(cx[k])*mp.im(cx[k+1]) > 0 for k in range(0, len(cx)-1, 2))
sys.exit(1 if bad else 0)
