import sys, os; sys.path.insert(0, os.getcwd())
from mpmath import mp, mpf, mpc
# mnewton with user-supplied exact derivatives: ZeroDivisionError near a root of multiplicity 5
mp.prec = 53
c  = [1, -5, 10, -10, 5, -1]          # (x-1)^5
d1 = [5, -20, 30, -20, 5]             # its derivative
d2 = [20, -60, 60, -20]               # its second derivative
f, df, d2f = (lambda x: mp.polyval(c, x)), (lambda x: mp.polyval(d1, x)), (lambda x: mp.polyval(d2, x))
x0 = mpf('1.01')
print('f = (x-1)^5 in coefficient form, x0 =', x0, ', prec =', mp.prec, ', solver=mnewton, df and d2f supplied')
print('expected: a value within 2^(4-53/5) = %s of 1' % mp.nstr(mpf(2)**(4-mpf(53)/5), 5))
try:
    x = mp.findroot(f, x0, solver='mnewton', df=df, d2f=d2f)
    print('observed:', x); bad = not abs(x-1) < mpf(2)**(4-mpf(53)/5)
except ZeroDivisionError as e:
    print('observed: ZeroDivisionError'); bad = True
except ValueError as e:
    print('observed: ValueError', str(e)[:70]); bad = True
sys.exit(1 if bad else 0)
