import sys, os; sys.path.insert(0, os.getcwd())
from mpmath import *
# mnewton on an expanded polynomial with a triple root: ZeroDivisionError (df(x)==0, f(x)!=0)
f = lambda x: polyval([1, 3, 3, 1], x)        # (x+1)^3, same call as test_mnewton
df = lambda x: polyval([3, 6, 3], x)
bad = False
for dps in (15, 16, 20, 30):
    mp.dps = dps
    bound = mpf(2)**(4 - mpf(mp.prec)/3)
    for kw in ({}, {'df': df}):
        try:
            x = findroot(f, -0.9, solver='mnewton', **kw)
            ok = abs(x + 1) < bound
            print(dps, sorted(kw), '->', x, 'ok' if ok else 'INACCURATE')
        except Exception as e:
            ok = False; print(dps, sorted(kw), '->', type(e).__name__, str(e)[:60])
        bad = bad or not ok
print('expected: -1.0 within 2^(4-p/3) at every precision')
print('VIOLATION' if bad else 'ok'); sys.exit(1 if bad else 0)
