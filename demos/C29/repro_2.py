import sys, os; sys.path.insert(0, os.getcwd())
from mpmath import *
# polyroots error estimate on a double root: (x+6)^2, default arguments
mp.dps = 15
c = [1, 12, 36]
roots, err = polyroots(c, error=True)
mp.dps = 50
true_err = max(abs(z + 6) for z in roots)
resid = max(abs(polyval(c, z)) for z in roots)
dres = max(abs(polyval(c, z, derivative=True)[1]) for z in roots)
mp.dps = 15
print('coeffs', c, 'roots', roots)
print('returned err estimate', err, ' true max error', true_err)
print('residual |p(r)| =', resid, ' but err*|p\'(r)| =', err*dres)
print('expected: err >= true error (or NoConvergence)')
bad = true_err > 1000*err
print('VIOLATION' if bad else 'ok'); sys.exit(1 if bad else 0)
