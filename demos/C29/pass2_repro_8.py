import sys, os; sys.path.insert(0, os.getcwd())
from mpmath import mp, mpf, mpc
# multiplicity undercounts when the root is only known to working precision (absolute tolerance eps^0.8)
bad = False
for prec, m in ((53, 5), (30, 5), (100, 7)):
    mp.prec = prec
    got = mp.multiplicity(lambda x: (x**2 - 2)**m, mp.sqrt(2))
    print('prec %d: multiplicity((x^2-2)^%d, sqrt(2)) = %d, expected %d' % (prec, m, got, m))
    bad |= got != m
mp.prec = 53
got = mp.multiplicity(lambda x: (7*x - 9)**4*(x + 3), mpf(9)/7)
print('prec 53: multiplicity((7x-9)^4 (x+3), 9/7) = %d, expected 4' % got); bad |= got != 4
sys.exit(1 if bad else 0)
