import sys, os; sys.path.insert(0, os.getcwd())
from mpmath import mp, mpf, mpc
# mnewton: df(x0) == 0 at the first step -> solver yields nothing -> ValueError, although x0 is already within the bound
mp.prec = 53
from math import comb
m = 7
c  = [(-1)**k*comb(m, k) for k in range(m+1)]          # (x-1)^7
d1 = [a*(m-i) for i, a in enumerate(c[:-1])]
f, df = (lambda x: mp.polyval(c, x)), (lambda x: mp.polyval(d1, x))
x0 = 1 + mpf('1e-6')
bound = mpf(2)**(4-mpf(53)/m)
print('f = (x-1)^7 in coefficient form, x0 = 1+1e-6, prec = 53, solver=mnewton, df supplied')
print('expected: a value within 2^(4-53/7) = %s of 1 (x0 itself qualifies)' % mp.nstr(bound, 5))
try:
    x = mp.findroot(f, x0, solver='mnewton', df=df)
    print('observed:', x); bad = not abs(x-1) < bound
except Exception as e:
    print('observed: %s: %s' % (type(e).__name__, str(e).split(chr(10))[0])); bad = True
sys.exit(1 if bad else 0)
