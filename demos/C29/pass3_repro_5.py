import sys, os; sys.path.insert(0, os.getcwd())
# bracketing solvers return a point outside the bracket when there is no sign change
from mpmath import mp, findroot
mp.prec = 53
f = lambda x: x**3 - 2*x - 5      # only real root 2.0945...
a, b = 3, 4
bad = False
for s in ['illinois', 'pegasus', 'anderson', 'ridder']:
    try:
        x = findroot(f, (a, b), solver=s)
        inside = a <= x <= b
        print(s, (a, b), "-> observed", x, "inside bracket:", inside)
        bad |= not inside
    except Exception as e:
        print(s, (a, b), "->", type(e).__name__)
print("expected: a point in [3, 4] or an exception (bisect raises ValueError here)")
sys.exit(1 if bad else 0)
