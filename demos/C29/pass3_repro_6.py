import sys, os; sys.path.insert(0, os.getcwd())
# multiplicity of an exact root of a polynomial with exactly representable coefficients
from mpmath import mp, mpf, polyval, multiplicity, diff, eps
from math import comb
mp.prec = 53
m, r = 8, 36
c = [mpf((-r)**k*comb(m, k)) for k in range(m+1)]
assert all(int(a) == (-r)**k*comb(m, k) for k, a in enumerate(c))   # coefficients exact
f = lambda x: polyval(c, x)
got = multiplicity(f, r)
print("f = (x-36)^8 expanded (exact coefficients), root 36, prec 53")
print("observed multiplicity:", got, " expected:", m)
print("diff(f, 36, 1) =", diff(f, r, 1), " tol = eps**0.8 =", eps**0.8)
sys.exit(1 if got != m else 0)
