import sys, os; sys.path.insert(0, os.getcwd())
# multidimensional findroot(verify=True) accepts a nan residual (and a wrong point)
from mpmath import mp, mpf, log, findroot, isnan
mp.prec = 53
f = lambda x, y: [x, y - 2 + x*log(x)]     # continuous root at (0, 2); f2(0, y) evaluates to nan
x0 = (1, 5)
print("f(x,y) = [x, y-2+x*log(x)], x0 =", x0, "verify=True (default)")
try:
    r = findroot(f, x0)
    res = f(*r)
    print("observed: x =", list(r), " f(x) =", res)
    tol = mpf(2)**(-mp.prec-9)
    bad = not (max(abs(v) for v in res)**2 <= tol) or any(isnan(v) for v in res)
except Exception as e:
    print("observed:", type(e).__name__, str(e).split('\n')[0]); bad = False
print("expected: ValueError (residual is nan, and y=3 is not the root y=2), as in the scalar case")
sys.exit(1 if bad else 0)
