# C15 violation 3: iv.log: imaginary part (argument) not contained  (mpi_atan2 -> mpf_atan2 -> mpf_atan, tiny ratio)
import sys, os; sys.path.insert(0, os.getcwd()); sys.path.insert(0, os.path.dirname(os.path.abspath(__file__)))
from _common import *
iv.prec = 53; mp.prec = 2000
bad = 0
z = mpc(3, ldexp(3, -60))                       # 3 + 3*2^-60 i, arg = atan(2^-60) < 2^-60
bad |= check("iv.log(3 + 3*2^-60 i), prec 53", iv.log(pt(z.real, z.imag)), mp.log(z))
z = mpc(1, -ldexp(1, -60))
bad |= check("iv.log(1 - 2^-60 i), prec 53", iv.log(pt(z.real, z.imag)), mp.log(z))
print("VIOLATION" if bad else "ok"); sys.exit(1 if bad else 0)
