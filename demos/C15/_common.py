# shared checker for the repro scripts (oracle: mpmath itself at 2000 bits)
import sys, os; sys.path.insert(0, os.getcwd())
from mpmath import mp, iv, mpf, mpc, ldexp
def pt(re, im):
    """complex point rectangle with exact endpoints (no rounding to iv.prec)"""
    return iv.make_mpc(((re._mpf_, re._mpf_), (im._mpf_, im._mpf_)))
def check(label, res, true):
    mp.prec = 2000
    (ra, rb), (ia, ib) = res._mpci_
    ra, rb, ia, ib = [mp.make_mpf(t) for t in (ra, rb, ia, ib)]
    ok_re = ra <= true.real <= rb; ok_im = ia <= true.imag <= ib
    print(label)
    print("  observed re = [%s, %s]" % (mp.nstr(ra, 40), mp.nstr(rb, 40)))
    print("  expected re   %s   contained: %s" % (mp.nstr(true.real, 40), ok_re))
    print("  observed im = [%s, %s]" % (mp.nstr(ia, 40), mp.nstr(ib, 40)))
    print("  expected im   %s   contained: %s" % (mp.nstr(true.imag, 40), ok_im))
    return not (ok_re and ok_im)
