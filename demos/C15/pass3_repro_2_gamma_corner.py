import sys, os; sys.path.insert(0, os.getcwd())
from mpmath import mp, iv, mpf, mpc
# iv.gamma of a POINT rectangle z = x + iy: the real part of the enclosure misses gamma(z).
cases = [  # (iv.prec, (man, exp) of x, (man, exp) of y)
 (10, (419895911480729558253, -67), (994292013957290097123, -69)),                        # 70-bit endpoints
 (53, (923419042366502852751842260530621, -108), (1093167923476916871569164873100495, -109)),  # 110-bit endpoints
]
bad = 0
for prec, (xm, xe), (ym, ye) in cases:
    mp.prec = 1000
    x = mpf(xm) * mpf(2)**xe; y = mpf(ym) * mpf(2)**ye
    iv.prec = prec
    z = iv.mpc(iv.mpf(x), iv.mpf(y))            # exact point interval
    assert z.real.a == z.real.b == x and z.imag.a == z.imag.b == y
    r = iv.gamma(z)
    t = mp.gamma(mpc(x, y))                      # 1000-bit reference
    lo = mp.mpf(r.real.a._mpi_[0])               # lower end of the real part
    print("iv.prec=%d z=(%s, %s)" % (prec, mp.nstr(x, 35), mp.nstr(y, 35)))
    print("  observed  Re enclosure:", r.real)
    print("  expected  Re gamma(z) = %s  (below lower end by %s)" % (mp.nstr(mp.re(t), 40), mp.nstr(lo - mp.re(t), 5)))
    if mp.re(t) < lo:
        bad += 1
print("VIOLATIONS:", bad)
sys.exit(1 if bad else 0)
