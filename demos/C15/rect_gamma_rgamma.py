# C15 violation 5: iv.gamma / iv.rgamma on a point rectangle n + 2^-83 on the real axis return the exact
# value at the integer n (input bits beyond the working precision are truncated in mpf_gamma)
import sys, os; sys.path.insert(0, os.getcwd()); sys.path.insert(0, os.path.dirname(os.path.abspath(__file__)))
from _common import *
iv.prec = 53; mp.prec = 2000
bad = 0
z = mpc(4 + ldexp(1, -83), 0)
bad |= check("iv.gamma((4 + 2^-83) + 0i), prec 53", iv.gamma(pt(z.real, z.imag)), mp.gamma(z))
z = mpc(3 + ldexp(1, -83), 0)
bad |= check("iv.rgamma((3 + 2^-83) + 0i), prec 53", iv.rgamma(pt(z.real, z.imag)), mp.rgamma(z))
z = mpc(1 + ldexp(1, -83), 0)
bad |= check("iv.gamma((1 + 2^-83) + 0i), prec 53", iv.gamma(pt(z.real, z.imag)), mp.gamma(z))
print("VIOLATION" if bad else "ok"); sys.exit(1 if bad else 0)
