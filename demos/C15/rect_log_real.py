# C15 violation 4: iv.log: real part log|z| not contained when |z| = 1 + 2^-40  (mpf_log directed rounding near 1)
import sys, os; sys.path.insert(0, os.getcwd()); sys.path.insert(0, os.path.dirname(os.path.abspath(__file__)))
from _common import *
iv.prec = 53; mp.prec = 2000
bad = 0
z = mpc(0, 1 + ldexp(1, -40))                   # i*(1 + 2^-40)
bad |= check("iv.log(i*(1 + 2^-40)), prec 53", iv.log(pt(z.real, z.imag)), mp.log(z))
z = mpc(-1 - ldexp(1, -40), 0)                  # -(1 + 2^-40)
bad |= check("iv.log(-(1 + 2^-40) + 0i), prec 53", iv.log(pt(z.real, z.imag)), mp.log(z))
print("VIOLATION" if bad else "ok"); sys.exit(1 if bad else 0)
