# iv.arg, iv.factorial and iv.loggamma of point rectangles do not contain the exact value
# (run with the repository root as working directory)
import sys, os; sys.path.insert(0, os.getcwd())
from mpmath import mp, iv, mpf, mpc
import mpmath

def pt(z):
    return iv.make_mpc(((z.real._mpf_, z.real._mpf_), (z.imag._mpf_, z.imag._mpf_)))

def inside(r, t):
    if hasattr(r, '_mpci_'):
        (a, b), (c, d) = r._mpci_
        return mp.make_mpf(a) <= t.real <= mp.make_mpf(b) and mp.make_mpf(c) <= t.imag <= mp.make_mpf(d)
    a, b = r._mpi_
    return mp.make_mpf(a) <= t <= mp.make_mpf(b)

mp.prec = 1500
bad = 0
iv.prec = 53
z = mpc(3, 3*mpf(2)**-60)
r = iv.arg(pt(z)); t = mpmath.arg(z)
print("iv.arg(3 + 3*2^-60 i) =", r, " exact", mp.nstr(t, 30), " contained:", inside(r, t)); bad += not inside(r, t)
iv.prec = 10
z = mpc(-1 + mpf(2)**-31, 0)
r = iv.factorial(pt(z)); t = mpmath.factorial(z)
print("iv.factorial(-1 + 2^-31) at 10 bits =", r, " exact", mp.nstr(t.real, 20), " contained:", inside(r, t)); bad += not inside(r, t)
iv.prec = 53
z = mpc(mpf(2)**-193, -mpf(2)**-249)
r = iv.loggamma(pt(z)); t = mpmath.loggamma(z)
print("iv.loggamma(2^-193 - 2^-249 i) =", r, " exact", mp.nstr(t, 25), " contained:", inside(r, t)); bad += not inside(r, t)
sys.exit(1 if bad else 0)
