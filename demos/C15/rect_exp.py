# C15 violation 1: iv.exp of a complex point does not contain exp(z)  (mpf_exp directed rounding, tiny argument)
import sys, os; sys.path.insert(0, os.getcwd()); sys.path.insert(0, os.path.dirname(os.path.abspath(__file__)))
from _common import *
iv.prec = 53; mp.prec = 2000
bad = 0
z = mpc(ldexp(1, -45), ldexp(1, -50))          # 2^-45 + 2^-50 i
bad |= check("iv.exp(2^-45 + 2^-50 i), prec 53", iv.exp(pt(z.real, z.imag)), mp.exp(z))
z = mpc(ldexp(1, -88), 0)                       # 2^-88: result is the point [1,1]
bad |= check("iv.exp(2^-88 + 0i), prec 53", iv.exp(pt(z.real, z.imag)), mp.exp(z))
print("VIOLATION" if bad else "ok"); sys.exit(1 if bad else 0)
