# C15 repro 1: gamma/rgamma/loggamma/factorial of a complex rectangle with zero
# imaginary part raise ValueError (mpci_gamma passes the whole complex pair to mpi_gamma).
import sys, os; sys.path.insert(0, os.getcwd())
from mpmath import iv, mp
iv.prec = 53; mp.prec = 200
bad = 0
cases = [('gamma', iv.mpc(2.5, 0), mp.gamma(2.5)),
         ('rgamma', iv.mpc([2, 3], 0), mp.rgamma(2.5)),
         ('factorial', iv.mpc(0.5, 0), mp.factorial(0.5)),
         ('loggamma', iv.mpc(2.5, 0), mp.loggamma(2.5)),
         ('loggamma', iv.mpc(-2.5, 0), mp.loggamma(-2.5))]   # reaches the real case through the recurrence
for name, z, expected in cases:
    try:
        r = getattr(iv, name)(z)
        ok = (mp.re(expected) in r.real) and (mp.im(expected) in r.imag)
        print(name, z, '->', r, 'contains', mp.nstr(expected, 20), ':', ok)
        bad += (not ok)
    except Exception as e:
        print(name, z, '-> observed %s: %s ; expected a rectangle containing %s'
              % (type(e).__name__, e, mp.nstr(expected, 20)))
        bad += 1
sys.exit(1 if bad else 0)
