import sys, os; sys.path.insert(0, os.getcwd())
from mpmath import mp, iv, mpf, mpc
# iv.loggamma of a POINT rectangle z = x + iy: the enclosure misses loggamma(z).
cases = [  # (iv.prec, x, y) -- all endpoints exact binary numbers
 (10, float.fromhex('0x1.836bbebf9009cp+2'), float.fromhex('0x1.9a9a80ef2b725p+1')),   # doubles
 (24, (13511768853108760393, -61), float.fromhex('0x1.3c6da5c9b49f4p+1')),            # 64-bit x
 (53, (14354050621778982793084281573, -91), float.fromhex('0x1.1a6916d714358p+1')),   # 94-bit x
]
bad = 0
for prec, x, y in cases:
    mp.prec = 1000
    x = mpf(x[0]) * mpf(2)**x[1] if isinstance(x, tuple) else mpf(x)
    y = mpf(y)
    iv.prec = prec
    z = iv.mpc(iv.mpf(x), iv.mpf(y))            # exact: point interval, no rounding
    assert z.real.a == z.real.b == x and z.imag.a == z.imag.b == y
    r = iv.loggamma(z)
    t = mp.loggamma(mpc(x, y))                   # 1000-bit reference
    hi = mp.mpf(r.real.b._mpi_[1])               # upper end of the real part
    print("iv.prec=%d z=(%s, %s)" % (prec, mp.nstr(x, 30), mp.nstr(y, 20)))
    print("  observed  Re enclosure:", r.real)
    print("  expected  Re loggamma(z) = %s  (exceeds upper end by %s)" % (mp.nstr(mp.re(t), 40), mp.nstr(mp.re(t) - hi, 5)))
    if mp.re(t) > hi:
        bad += 1
print("VIOLATIONS:", bad)
sys.exit(1 if bad else 0)
