# C15 violation 2: iv.sin / iv.cos of a complex point: imaginary part not contained (even returned as exactly [0,0])
import sys, os; sys.path.insert(0, os.getcwd()); sys.path.insert(0, os.path.dirname(os.path.abspath(__file__)))
from _common import *
iv.prec = 53; mp.prec = 2000
bad = 0
z = mpc(1, ldexp(1, -98))                       # 1 + 2^-98 i
bad |= check("iv.sin(1 + 2^-98 i), prec 53", iv.sin(pt(z.real, z.imag)), mp.sin(z))
bad |= check("iv.cos(1 + 2^-98 i), prec 53", iv.cos(pt(z.real, z.imag)), mp.cos(z))
z = mpc(ldexp(1, -60), ldexp(25, -56))          # 2^-60 + 25*2^-56 i
bad |= check("iv.sin(2^-60 + 25*2^-56 i), prec 53", iv.sin(pt(z.real, z.imag)), mp.sin(z))
print("VIOLATION" if bad else "ok"); sys.exit(1 if bad else 0)
