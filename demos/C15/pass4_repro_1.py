import sys, os; sys.path.insert(0, os.getcwd())
from mpmath import mp, iv, mpf, mpc, gamma, rgamma, factorial, inf
# gamma family of an unbounded rectangle: the returned rectangle misses the
# values at ordinary finite points of the input rectangle
iv.prec = 53; mp.prec = 200
cases = [('gamma', iv.gamma, gamma, ([2, 3], [-inf, -1]), mpc(2, -1)),
         ('rgamma', iv.rgamma, rgamma, ([2, 3], [-inf, -1]), mpc(3, -1)),
         ('factorial', iv.factorial, factorial, ([2, 3], [-inf, -1]), mpc(2, -1)),
         ('gamma', iv.gamma, gamma, ([-inf, 1], [2, 2]), mpc(1, 2)),
         ('rgamma', iv.rgamma, rgamma, ([-inf, 1], [2, 2]), mpc(0, 2))]
bad = 0
for name, f, g, (re, im), p in cases:
    R = f(iv.mpc(re, im))
    v = g(p)
    (ra, rb), (ia, ib) = R._mpci_
    ok = mpf(ra) <= v.real <= mpf(rb) and mpf(ia) <= v.imag <= mpf(ib)
    print('iv.%s(iv.mpc(%s, %s)) = %s' % (name, re, im, R))
    print('   exact %s(%s) = %s  -> %s' % (name, p, mp.nstr(v, 15), 'contained' if ok else 'NOT CONTAINED'))
    bad += not ok
print('expected: every value contained (or an exception / an unbounded enclosure)')
sys.exit(1 if bad else 0)
