import sys, os; sys.path.insert(0, os.getcwd())
from mpmath import mp, iv, mpf, mpc, loggamma, inf, isnan
# loggamma of an unbounded rectangle returns a rectangle with nan end points
# (it contains no point at all, in particular not the finite values)
iv.prec = 53; mp.prec = 200
cases = [(([2, 3], [1, inf]), mpc(2, 1)), (([2, inf], [1, 2]), mpc(2, 1)), (([2, inf], [0, 1]), mpc(3, 0.5)),
         (([-inf, 1], [2, 2]), mpc(1, 2)), (([2, 3], [-inf, inf]), mpc(2, 0))]
bad = 0
for (re, im), p in cases:
    R = iv.loggamma(iv.mpc(re, im))
    v = loggamma(p)
    (ra, rb), (ia, ib) = [[mpf(t) for t in part] for part in R._mpci_]
    nan = any(isnan(t) for t in (ra, rb, ia, ib))
    ok = (not nan) and ra <= v.real <= rb and ia <= v.imag <= ib
    print('iv.loggamma(iv.mpc(%s, %s)) = %s' % (re, im, R))
    print('   exact loggamma(%s) = %s -> %s' % (p, mp.nstr(v, 15), 'contained' if ok else 'NOT CONTAINED' + (' (nan end point)' if nan else '')))
    bad += not ok
print('expected: an enclosure with ordered non-nan end points (infinite where needed) or an exception')
sys.exit(1 if bad else 0)
