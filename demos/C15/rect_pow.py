# C15 violation 6: iv.mpc ** iv.mpc (non-integer exponent): 0.25 ** (-2^-88) returned as the point [1,1]
import sys, os; sys.path.insert(0, os.getcwd()); sys.path.insert(0, os.path.dirname(os.path.abspath(__file__)))
from _common import *
iv.prec = 53; mp.prec = 2000
x = mpc(0.25, 0); y = mpc(-ldexp(1, -88), 0)
r = pt(x.real, x.imag) ** pt(y.real, y.imag)
bad = check("(0.25+0i) ** (-2^-88+0i), prec 53", r, mp.exp(y * mp.log(x)))
print("VIOLATION" if bad else "ok"); sys.exit(1 if bad else 0)
