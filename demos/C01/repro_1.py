# mpf(<raw 4-tuple>) maps the canonical encodings of +inf, -inf and nan to zero
import sys, os; sys.path.insert(0, os.getcwd())
from mpmath import mp, mpf, inf, ninf, nan
from mpmath.libmp import finf, fninf, fnan, fzero
bad = 0
for name, x, raw in [('+inf', inf, finf), ('-inf', ninf, fninf), ('nan', nan, fnan)]:
    y = mpf(x._mpf_)            # rebuild the number from its own stored representation
    ok = (y._mpf_ == raw)
    print("input raw tuple %-22r (%s): observed mpf -> %r raw %r ; expected raw %r : %s"
          % (raw, name, y, y._mpf_, raw, 'ok' if ok else 'VIOLATION'))
    bad += not ok
# control: a finite value round-trips
z = mpf(mpf(1.5)._mpf_)
print("control mpf(mpf(1.5)._mpf_) =", z, z._mpf_)
sys.exit(1 if bad else 0)
