# ldexp (and mpf((man, exp))) store a non-integer exponent verbatim -> non-canonical mpf
import sys, os; sys.path.insert(0, os.getcwd())
from mpmath import mp, mpf, ldexp
bad = 0
for label, x in [("ldexp(mpf(3), 2.0)", ldexp(mpf(3), 2.0)),
                 ("ldexp(mpf(3), mpf(2))", ldexp(mpf(3), mpf(2))),
                 ("mpf((3, 2.0))", mpf((3, 2.0)))]:
    raw = x._mpf_
    y = mpf(12)
    try: h = hash(x)
    except Exception as e: h = 'raises %s' % type(e).__name__
    canonical = type(raw[2]) is int
    print("%-22s observed raw %r ; expected raw %r ; == mpf(12): %s ; hash: %s (expected %d)"
          % (label, raw, y._mpf_, x == y, h, hash(y)))
    if not canonical or h != hash(y): bad += 1
sys.exit(1 if bad else 0)
