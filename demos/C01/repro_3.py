# a precision <= 0 passed through the public prec= keyword makes normalize() spin forever
# (the rounded mantissa becomes 0, a non-canonical zero that the strip-trailing-zeros loop never leaves)
import sys, os, signal; sys.path.insert(0, os.getcwd())
from mpmath import mp, mpf, fadd, sqrt
class Hang(Exception): pass
def h(*a): raise Hang()
signal.signal(signal.SIGALRM, h)
bad = 0
for label, f in [("mpf(mpf(1), prec=0)", lambda: mpf(mpf(1), prec=0)),
                 ("mpf(5, prec=-3)", lambda: mpf(5, prec=-3)),
                 ("fadd(5, 2, prec=-1)", lambda: fadd(5, 2, prec=-1)),
                 ("sqrt(2, prec=-5)", lambda: sqrt(2, prec=-5))]:
    signal.alarm(2)
    try:
        r = f(); signal.alarm(0)
        print(label, "-> returned", r, r._mpf_, "(expected: an error or a canonical value)")
    except Hang:
        print(label, "-> observed: no return within 2 s (infinite loop in _normalize); expected: ValueError or a canonical result")
        bad += 1
    except Exception as e:
        signal.alarm(0); print(label, "-> raises", type(e).__name__, "(fine)")
sys.exit(1 if bad else 0)
